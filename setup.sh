#!/bin/sh
# Build the symgo engine offline from files on disk only.
set -e
cd "$(dirname "$0")/engine"
export GOFLAGS=-mod=mod GOPROXY=off GOSUMDB=off GOTOOLCHAIN=local
go build -o ../bin/symgo ./cmd/symgo
