#!/usr/bin/env python3
"""Prints the DESIGN.md 9.6 table (seeded change -> which registered quick checks report it) from seeded/*/meta.json."""
import json, os
ROOT = os.path.dirname(os.path.dirname(os.path.abspath(__file__)))
rows = []
for name in sorted(os.listdir(os.path.join(ROOT, 'seeded'))):
    mp = os.path.join(ROOT, 'seeded', name, 'meta.json')
    if not os.path.exists(mp):
        continue
    m = json.load(open(mp))
    ev = m.get('checks') or {}
    caught, silent, inconc = [], [], []
    applied = ev.get('applied', '?')
    for c in ev.get('checks', []):
        (caught if c['exit'] == 1 else inconc if c['exit'] == 2 else silent).append(c['property'])
    if applied == 'no':
        verdict = 'patch no longer applies to the fixed tree'
    elif caught:
        verdict = 'reported by ' + ', '.join(caught)
        if silent:
            verdict += ' (silent: ' + ', '.join(silent) + ')'
    else:
        verdict = '**not reported** (ran: ' + ', '.join(silent + inconc) + ')'
    rows.append((name, m['change'], verdict))
print('| seed | change | quick checks |')
print('|---|---|---|')
for r in rows:
    print('| %s | %s | %s |' % r)
