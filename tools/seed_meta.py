#!/usr/bin/env python3
"""Writes seeded/<name>/meta.json from the summaries below + confirm.log + eval.json."""
import json, os
ROOT = os.path.dirname(os.path.dirname(os.path.abspath(__file__)))
S = {
 "C01-1": ("C01", "introduceMerge: offset of surviving segments advanced by live count instead of full count", "a merge introduction that leaves a segment with deletions out of the merge; reader taken before the next batch"),
 "C01-2": ("C01", "ProcessSegmentNow: AndNot operands swapped, deletions since the merge plan are dropped", "a merge over a segment that already had a deletion at plan time, plus another delete on it before the merge is introduced"),
 "C02-1": ("C02", "persisterLoop collects the waiters after persisting: a batch introduced during the persist round is acknowledged before it is on disk", "two safe Batch calls in flight, the second introduced while the persister writes; crash before the next round"),
 "C02-2": ("C02", "persistSnapshotDirect returns early for an empty root: no snapshot written, yet acknowledged", "a delete-only batch that empties the index after a non-empty snapshot is on disk"),
 "C03-1": ("C03", "loadSnapshot reads the CRC trailer before decoding: negative slice bound on files shorter than 4 bytes", "a crash leaving a 1-3 byte snapshot file; default mmap loader"),
 "C03-2": ("C03", "introduceSegment ORs new deletions into the bitmap shared with older snapshots (in place)", "a segment that already carries a deletion, a later delete on it while an older snapshot is still being persisted, crash at that boundary"),
 "C04-1": ("C04", "introduceSegment ORs new deletions into the shared deleted bitmap in place", "a reader held across a batch that deletes from a segment which already has a deleted bitmap"),
 "C04-2": ("C04", "currentSnapshot takes its reference after releasing rootLock", "a Reader() call preempted exactly between unlock and addRef while the introducer swaps and closes the old root"),
 "C05-1": ("C05", "introduceSegment ORs new deletions into the shared deleted bitmap in place", "a reader open across a later batch touching a multi-document segment with an existing deleted bitmap"),
 "C05-2": ("C05", "introduceSegment closes the applied channel before replaceRoot", "unsafe batch mode and a Reader() landing between the acknowledgement and the root swap"),
 "C06-1": ("C06", "ProcessSegmentNow also requires a non-nil plan-time bitmap: deletions since planning are lost when the segment had none at plan time", "a merged segment without deletions at plan time and a partial delete before introduction"),
 "C06-2": ("C06", "introduceSegment ORs into the shared bitmap, so the merge's plan-time view aliases the current one", "a segment with a deletion at plan time and another delete before the merge is introduced"),
 "C07-1": ("C07", "BooleanSearcher.advanceIfTrailing re-advances the must-not cursor when it already sits on the target (< became <=)", "a boolean with must-not nested under a conjunction, advanced exactly onto an excluded document"),
 "C07-2": ("C07", "geo distance: latitude arguments swapped for the box west of the antimeridian", "a geo distance query whose circle crosses +-180 degrees longitude"),
 "C08-1": ("C08", "optimizeConjunctionUnadorned checks bitmaps against a 1-hit document only when they come after it", "score none, conjunction of term queries, a merged (1-hit encoded) segment where the first bitmap lacks the 1-hit document"),
 "C08-2": ("C08", "optimizeConjunction intersects in place: the postings list's own bitmap is modified", "default scoring, a segment without deletions, two bitmap postings"),
 "C09-1": ("C09", "sortFirstLast.Value simplified: ascending + missing-first gets the sorts-last placeholder", "hits without a value under an ascending missing-first key, or Before() paging on a descending key"),
 "C09-2": ("C09", "collectSingle keeps backingSize-1 hits: the preallocation cap (1000) limits retained hits", "size + from above the preallocation cap"),
 "C10-1": ("C10", "splitInt64Range: the two wrap guards merged with && instead of ||", "a range end near the int64 extremes with the other end open or far away"),
 "C10-2": ("C10", "Float64ToInt64 tests f < 0 instead of the sign bit: -0.0 is not flipped", "the value -0.0 (or a date 1 ns before the epoch) as an indexed value or range end"),
 "C11-1": ("C11", "cleanupSnapshots forgets a snapshot's segments before the snapshot file is removed, even when removal fails", "a refused snapshot removal while the snapshot references a segment no newer retained snapshot has"),
 "C11-2": ("C11", "OpenWriter closes itself when Lock() fails and Unlock removes the pid file unconditionally", "a second OpenWriter refused on a locked directory, then a third"),
 "C12-1": ("C12", "deleted-bitmap bytes read with bufio Read instead of io.ReadFull", "a snapshot over 4 KiB whose deleted bitmap straddles the read buffer"),
 "C12-2": ("C12", "loadSnapshot accepts an empty snapshot before verifying the CRC", "a damaged file that decodes as version 1 with zero segments (truncation to 5 bytes, flipped count byte)"),
 "C13-1": ("C13", "Persist skips fsync when the writer reported 0 bytes", "an item of exactly 0 bytes"),
 "C13-2": ("C13", "Persist opens the item with O_APPEND", "a non-empty file of the same name exists (neutralised by fix F1: the file is now truncated under the lock, after which O_APPEND writes the exact bytes)"),
 "C14-1": ("C14", "persistSnapshotDirect commits to the deletion policy before persisting the snapshot", "a failed snapshot write followed by a retry with the same epoch"),
 "C14-2": ("C14", "prepareIntroducePersist closes nil entries of the loaded-segments map", "a Load fault on a segment the persister has just written"),
 "C16-1": ("C16", "TermsCalculator counts total per term value instead of per match", "a terms aggregation where a matched document lacks the field"),
 "C16-2": ("C16", "Max starts from SmallestNonzeroFloat64 instead of -Inf", "a Max aggregation over values that are all <= 0"),
 "C17-1": ("C17", "ExplainComposite returns the single constituent's explanation, dropping the boost", "explanations on, a boosted boolean query, a hit matching one clause group"),
 "C17-2": ("C17", "BM25Scorer.Score uses a 256-entry norm cache indexed by docLen & 255", "a field of 256 or more tokens scored without explanations"),
 "C18-1": ("C18", "ASCII folding buffer sized for 3x expansion instead of 4x", "input dominated by the 4-way folding runes (parenthesized numbers)"),
 "C18-2": ("C18", "TermField.Analyze drops empty-term tokens on the index side only", "an analysis that yields an empty term (free-standing tatweel under the Arabic analyzers)"),
 "C19-1": ("C19", "plan() removes a contiguous window instead of the chosen roster", "a gapped roster (a segment skipped because it no longer fits) that scores best while still over budget; needs >= 4 segments"),
 "C19-2": ("C19", "eligibility tests FullSize instead of LiveSize", "large segments that lost most of their documents"),
 "C20-1": ("C20", "fragment centring measures free room in bytes but moves by runes", "multi-byte text longer than the fragment size with room on both sides of the match"),
 "C20-2": ("C20", "MergeOverlapping moved above fragmenting: nil entries reach the fragmenter", "the first term location overlaps a later one"),
 "C01-3": ("C01", "introducePersist drops the deleted bitmap of the segment it swaps in", "a delete or update hitting a segment between its introduction and the persister's swap (unsafe mode or concurrent callers)"),
 "C01-4": ("C01", "introduceSegment ORs into the previous root's bitmap in place (missing copy), so a running merge's plan-time view aliases the current one", "a segment with a deletion at merge-plan time and another delete during the merge"),
 "C02-3": ("C02", "persistSnapshotDirect commits to the deletion policy before the snapshot is written", "a transient snapshot write failure, the persister's own retry, then a clean-up"),
 "C02-4": ("C02", "persisterLoop no longer reports ErrClosed to waiting batches: a safe Batch returns nil on shutdown without a snapshot", "Writer.Close from another goroutine while the persister is between the segment write and the hand-over"),
 "C03-3": ("C03", "persistSnapshotMaybeMerge persists the merged segment with the deletions later batches added (delete half of a later batch without its inserts)", "two unpersisted segments (in-memory merge) and an update of one of their documents during the merge, crash before the next snapshot"),
 "C03-4": ("C03", "loadSnapshots returns the newest snapshot's load error although an older one was loaded", "a torn newest snapshot next to an intact older one, opened with OpenWriter"),
 "C04-3": ("C04", "mergerLoop releases its snapshot twice on the ErrClosed path", "Writer.Close while a file merge is pending and a Reader of that epoch still open"),
 "C04-4": ("C04", "ProcessSegmentNow computes 'deleted since' in place on the current root's bitmap", "a merge over a segment that had a deletion at plan time while a Reader of the current root is open"),
 "C05-3": ("C05", "introduceSegment recomputes obsoletes only for in-memory segments the optimistic pass did not see", "two conflicting batches where the first one's segment is persisted before the second is introduced"),
 "C05-4": ("C05", "ProcessSegmentNow: AndNot operands swapped", "a merge over a segment with a plan-time deletion and another delete during the merge"),
 "C06-3": ("C06", "introduceMerge maps every plan-time doc number of an obsoleted segment, including the dropped-doc sentinel", "a merged source segment with a plan-time deletion that is fully obsoleted before the merge is introduced"),
 "C06-4": ("C06", "persistSnapshotMaybeMerge reuses the live segmentSnapshot (with later deletions) in the snapshot it persists", "an in-memory merge with an update of a merged document arriving during it"),
 "C07-3": ("C07", "DisjunctionHeapSearcher.Advance truncates the matching list before re-pushing its searchers", "a heap disjunction (more than 10 clauses) advanced while clauses sit in the look-ahead"),
 "C07-4": ("C07", "findPhrasePaths checks only the previous path element for a reused location", "a sloppy phrase with the same term at two non-adjacent positions and too few occurrences in the document"),
 "C11-3": ("C11", "persistSnapshotDirect commits the snapshot to the deletion policy even when writing it failed", "retention >= 2 and a transient snapshot write failure"),
 "C11-4": ("C11", "persisterLoop leaves through the ErrClosed branch without closing its snapshot", "Writer.Close while the persister is inside prepareIntroducePersist"),
 "C12-3": ("C12", "segment version read with Peek tolerating io.EOF: Uint32 on a short slice", "a file truncated inside a segment's version field"),
 "C12-4": ("C12", "loadSnapshots returns the newest snapshot's load error although an older one was loaded", "a damaged newest snapshot next to an intact older one, OpenWriter"),
 "C13-3": ("C13", "Persist writes through a bufio.Writer that is flushed after the fsync", "any item with a buffered tail; visible only in the write/fsync order"),
 "C13-4": ("C13", "Persist returns on an already closed closeCh right after opening, without removing the file", "cancellation arriving before Persist is entered"),
 "C14-3": ("C14", "Persist's clean-up moved into a defer that reads a shadowed err: a failed WriteTo leaves the partial file", "a write failure inside the item's WriteTo"),
 "C14-4": ("C14", "persisterLoop closes its snapshot twice on the ordinary error path", "a persist failure while the root holds a persisted segment, then any use of that segment"),
 "C19-3": ("C19", "plan() removes the fully deleted segments from the wrong slice, so they stay eligible", "a segment with live size 0 while the planner is over budget"),
 "C19-4": ("C19", "CalcBudget truncates TierGrowth before multiplying", "a non-integral TierGrowth (below 2: tiers never grow)"),
 "C08-3": ("C08", "loadSnapshot builds segment offsets from live counts instead of physical counts", "a reopened (or restored) index where a non-last segment has a pending deletion followed by a live document"),
 "C08-4": ("C08", "newDisjunctionSearcher lets min-should >= 2 through to the unadorned bitmap optimisation", "score none, default optimisations, a boolean with min-should k >= 2 over more than k optimisable clauses"),
 "C09-3": ("C09", "finalizeResults reverses a search-before page with (len-1)/2 swaps", "a Before() page with an even number of hits"),
 "C09-4": ("C09", "Sort.copy rebuilds the sort through its constructor and loses missingFirst", "Before() paging on a missing-first key with matches that lack the value"),
 "C10-3": ("C10", "NewNumericRangeSearcher no longer maps +-Inf to the int64 extremes", "an unbounded date range and a date within ~52 days of the int64 nanosecond limits"),
 "C10-4": ("C10", "exclusive ends stepped with math.Nextafter in float space (the two zeros are one value there)", "an exclusive end at -0/+0, e.g. a date range ending exactly at the epoch with a document 1 ns before it"),
 "C16-3": ("C16", "WeightedAvgCalculator adds the weight once per document instead of once per value", "a matched document with several values (or none) in the field"),
 "C16-4": ("C16", "DateRangeCalculator treats the end bound as inclusive", "a matched document whose date equals a range end to the nanosecond"),
 "C17-3": ("C17", "BM25Scorer.Explain adds the boost child only for boost > 1", "explanations on and a fractional boost such as 0.5"),
 "C17-4": ("C17", "CompositeSumScorer.ExplainComposite builds its child list in a buffer shared by all explanations of the scorer", "explanations on, a compound query, at least two hits, looking at an earlier hit after a later one was scored"),
 "C18-3": ("C18", "cjk width filter: combining-mark range widened past its lookup tables", "U+30FE/U+30FF followed by a halfwidth sound mark"),
 "C18-4": ("C18", "shingle filter: a shingle ending in a filler keeps End = 0", "shingles behind a stop/length filter that leaves position gaps, first member not at offset 0"),
 "C20-3": ("C20", "HTML formatter skips overlapping locations relative to the fragment start instead of the current position", "two overlapping locations in one fragment that MergeOverlapping left apart"),
 "C20-4": ("C20", "fragment scorer counts terms that only start inside the fragment", "a matched token longer than the fragment size followed by one that fits"),
}
for name, (prop, what, needs) in sorted(S.items()):
    d = os.path.join(ROOT, 'seeded', name)
    if not os.path.isdir(d):
        continue
    meta = {"seed": name, "breaks_property": prop, "change": what, "needs_to_manifest": needs,
            "files": sorted(os.listdir(d))}
    cl = os.path.join(d, 'confirm.log')
    if os.path.exists(cl):
        meta["confirmed_in_scratch_worktree"] = [l.strip() for l in open(cl) if l.strip()]
        meta["what_i_ran"] = "tools/seed_confirm.sh: scratch worktree of /repo, git apply patch, go build ./..., full suite `go test -vet=off -count=1 ./...` passes with the change, demo fails with it and passes without it"
    ev = os.path.join(d, 'eval.json')
    if os.path.exists(ev):
        meta["checks"] = json.load(open(ev))
    json.dump(meta, open(os.path.join(d, 'meta.json'), 'w'), indent=1)
    print(name, "ok")
