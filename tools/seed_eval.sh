#!/bin/bash
# tools/seed_eval.sh [name...] — evaluate the registered quick checks against each seeded change.
# Works on a scratch worktree of /repo under /tmp (VF_REPO) with its own output directory (VF_OUT),
# so /repo, /verif/evidence and /verif/replays are never touched; the worktree is removed at the end.
# Outcome per seed: seeded/<name>/eval.json.
cd /verif
export GOFLAGS=-mod=mod GOPROXY=off GOSUMDB=off GOTOOLCHAIN=local
declare -A PROPS=( [C01-1]="C06 C01" [C01-2]="C06 C01" [C03-1]="C12 C03" [C03-2]="C04 C06 C03" [C05-1]="C04 C05" [C13-2]="C13" [C02-3]="C02 C14" [C03-3]="C03 C06" [C04-3]="C04 C11" [C04-4]="C04 C06" [C05-3]="C05 C01" [C05-4]="C05 C06" [C11-3]="C11 C14" [C11-4]="C11 C04" [C14-3]="C14 C13" [C14-4]="C14 C04" [C01-3]="C01 C06 C04" [C01-4]="C01 C06 C04" [C06-4]="C06 C03" [C12-4]="C12 C03" [C08-3]="C08 C03 C02" [C17-4]="C17" )
names="$@"; [ -z "$names" ] && names=$(ls seeded | grep -E '^C[0-9]+-[0-9]+$')
WT=/tmp/seed-eval-wt-$$; OUT=/tmp/seed-eval-out-$$
git -C /repo worktree add -q --detach $WT HEAD || exit 2
mkdir -p $OUT
export VF_REPO=$WT VF_OUT=$OUT
for n in $names; do
  d=seeded/$n; [ -f $d/patch.diff ] || continue
  props=${PROPS[$n]:-${n%%-*}}
  git -C $WT checkout -q -- . ; git -C $WT clean -fdq; applied=no
  if git -C $WT apply $PWD/$d/patch.diff 2>/dev/null; then applied=yes; fi
  res="[]"
  if [ $applied != no ] && (cd $WT && go build ./... 2>/dev/null); then
    items=""
    for p in $props; do
      out=$(./bin/symgo check $p -tier quick 2>&1); code=$?
      line=$(echo "$out" | grep -m1 -E "violation:" | cut -c1-300 | sed 's/\\/\\\\/g; s/"/\\"/g')
      items="$items{\"property\":\"$p\",\"exit\":$code,\"first_violation\":\"$line\"},"
      rm -rf $OUT/replays
    done
    res="[${items%,}]"
  fi
  echo "{\"seed\":\"$n\",\"applied\":\"$applied\",\"repo_head\":\"$(git -C /repo rev-parse --short HEAD)\",\"checks\":$res}" > $d/eval.json
  echo "$n applied=$applied $(echo $res | grep -o '"property":"[^"]*","exit":[0-9]*' | tr '\n' ' ')"
done
git -C /repo worktree remove --force $WT; rm -rf $OUT
echo SEED-EVAL-DONE
