#!/bin/bash
# tools/seed_eval.sh [name...] — apply each seeded change to /repo, run the quick checks of the
# listed properties, undo, and record the outcome in seeded/<name>/eval.json
cd /verif
declare -A PROPS=( [C01-1]="C06 C01" [C01-2]="C06" [C03-1]="C12 C03" [C03-2]="C04 C06" [C05-1]="C04 C05" [C05-2]="C05" [C14-1]="C14" [C14-2]="C14" [C02-1]="C14" [C02-2]="C14" [C13-2]="C13" )
names="$@"; [ -z "$names" ] && names=$(ls seeded | grep -E '^C[0-9]+-[0-9]+$')
for n in $names; do
  d=seeded/$n; [ -f $d/patch.diff ] || continue
  props=${PROPS[$n]:-${n%%-*}}
  git -C /repo checkout -q -- . ; applied=no
  if git -C /repo apply $PWD/$d/patch.diff 2>/dev/null; then applied=yes; elif git -C /repo apply --3way $PWD/$d/patch.diff >/dev/null 2>&1 && ! git -C /repo diff | grep -q '^[+]<<<<<<<'; then applied=3way; git -C /repo reset -q; fi
  res="[]"
  if [ $applied != no ] && (cd /repo && GOFLAGS=-mod=mod go build ./... 2>/dev/null); then
    items=""
    for p in $props; do
      out=$(./check $p 2>&1); code=$?
      line=$(echo "$out" | grep -m1 -E "violation:" | cut -c1-300 | sed 's/"/\\"/g')
      items="$items{\"property\":\"$p\",\"exit\":$code,\"first_violation\":\"$line\"},"
      rm -f replays/*.json
    done
    res="[${items%,}]"
  fi
  git -C /repo checkout -q -- . ; git -C /repo reset -q --hard HEAD >/dev/null
  echo "{\"seed\":\"$n\",\"applied\":\"$applied\",\"repo_head\":\"$(git -C /repo rev-parse --short HEAD)\",\"checks\":$res}" > $d/eval.json
  echo "$n applied=$applied $(echo $res | grep -o '"property":"[^"]*","exit":[0-9]*' | tr '\n' ' ')"
done
