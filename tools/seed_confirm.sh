#!/bin/bash
# tools/seed_confirm.sh <seed-dir> <name>  — confirm a seeded change in a scratch worktree:
#  patch applies, builds, existing suite passes with it, demo fails with it and passes without it.
# On success copies patch/demo/notes to /verif/seeded/<name>/ and writes confirm.log there.
set -u
src="$1"; name="$2"
export GOFLAGS=-mod=mod GOPROXY=off GOSUMDB=off GOTOOLCHAIN=local
wt=/tmp/confirm-$name
git -C /repo worktree remove --force $wt >/dev/null 2>&1
git -C /repo worktree add -q --detach $wt ${SEED_BASE:-HEAD} || exit 2
log=$(mktemp)
cleanup() { git -C /repo worktree remove --force $wt >/dev/null 2>&1; }
trap cleanup EXIT
demo=$(ls $src/*_test.go 2>/dev/null | head -1)
pkgdir=$(grep -ioE 'placed? in[^`]*`[^`]*`|directory[^`]*`[^`]*`' $src/notes.md | grep -oE '`[^`]*`' | head -1 | tr -d '`')
[ -n "${3:-}" ] && pkgdir="$3"
pkgdir=${pkgdir#/tmp/wt-*/}; pkgdir=${pkgdir%/}; [ "$pkgdir" = "." ] && pkgdir=""
case "$pkgdir" in *repository*|*root*|"") pkgdir="";; esac
echo "demo=$demo pkgdir='$pkgdir'" | tee -a $log
cd $wt
git apply $src/patch.diff || { echo "PATCH DOES NOT APPLY" | tee -a $log; exit 1; }
go build ./... 2>&1 | tail -3 | tee -a $log
if go test -vet=off -count=1 ./... > $log.suite 2>&1; then echo "suite with change: PASS" | tee -a $log; else echo "suite with change: FAIL" | tee -a $log; grep -E "^(FAIL|---)" $log.suite | head | tee -a $log; exit 1; fi
cp $demo $wt/$pkgdir/
tpkg=./$pkgdir; [ -z "$pkgdir" ] && tpkg=.
tname=$(grep -oE 'func (Test[A-Za-z0-9_]+)' $demo | awk '{print $2}' | paste -sd'|')
if go test -vet=off -count=1 -run "^($tname)\$" $tpkg > $log.demo1 2>&1; then echo "demo with change: PASS (unexpected)" | tee -a $log; exit 1; else echo "demo with change: FAIL (expected)" | tee -a $log; fi
git apply -R $src/patch.diff
if go test -vet=off -count=1 -run "^($tname)\$" $tpkg > $log.demo2 2>&1; then echo "demo without change: PASS (expected)" | tee -a $log; else echo "demo without change: FAIL (unexpected)" | tee -a $log; tail -5 $log.demo2 | tee -a $log; exit 1; fi
mkdir -p /verif/seeded/$name
cp $src/patch.diff $src/notes.md $demo /verif/seeded/$name/
mv /verif/seeded/$name/$(basename $demo) /verif/seeded/$name/demo_test.go.txt
echo "$pkgdir" > /verif/seeded/$name/demo_pkgdir.txt
cp $log /verif/seeded/$name/confirm.log
echo "CONFIRMED $name"
