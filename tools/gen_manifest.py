#!/usr/bin/env python3
"""Regenerates /verif/MANIFEST.json from the table below (kept next to the checks so the two stay in step)."""
import json, os

ROOT = os.path.dirname(os.path.dirname(os.path.abspath(__file__)))
ids = [json.loads(l)['id'] for l in open(os.path.join(ROOT, 'properties.jsonl'))]

TECH = "solver-based: symbolic execution of the real functions' go/ssa (rebuilt from /repo on every run) with z3 deciding every branch and assertion within stated bounds; counterexamples replayed natively"

# property -> (level text, level note, design ref)
CLAIMED = {
 "C10": (
  "Bounded symbolic model checking of the real codec and range code: float<->int64 codec and prefix coding at full 64-bit width for all 64 shifts; splitInt64Range and termRange.Enumerate by loop cut (init + one arbitrary iteration + exit, so any number of iterations); bound adjustment of NewNumericRangeSearcher for all non-NaN floats; index-side terms and doc-value decoding. Every obligation is a z3 query over the SSA of the real functions; unsat = holds for all values.",
  "Outside: trip count/termination of Enumerate, the term dictionary and multi-term searcher (stubbed), geo scaling in float arithmetic, time.Time conversion of dates, -0/+0 treated by the total order (-0 below +0). Composition of the legs (index terms x split x enumerate x bounds) is an argument on paper. Trusted: go/ssa, z3, the engine's intrinsics (bytes.Compare/Equal, math.Float64bits).",
  "DESIGN.md section 5 C10, appendix C.8"),
 "C19": (
  "Bounded symbolic model checking of the real merge planner (plan/Plan, findLiveSizesAndEligibles, removeSegments, byLiveSizeDescending with sort.Sort from source): every list of n segments with symbolic sizes and every option setting in range, with the documented CalcBudget/ScoreSegments hooks returning arbitrary values on every call, gives a terminating, well-formed plan (tasks from the input, no segment twice, live sum below the maximum, no member at or above half of it), the same plan on a second run, and the one-step progress condition behind the boundedness clause.",
  "Bounds: n <= 3 quick, n <= 4 thorough; sizes < 2^40. Outside: the default float scoring and budget staircase (replaced by arbitrary-value hooks, so the result is independent of them), convergence/boundedness over histories of plan-execute cycles (only its one-step progress condition is decided), n > 4. Non-termination would surface as an unwind-bound INCONCLUSIVE, not as a VIOLATION.",
  "DESIGN.md section 5 C19"),
 "C13": (
  "Bounded symbolic model checking of the real FileSystemDirectory.Persist/fileName against a POSIX file model written in the harness: every prior file state (absent/shorter/equal/longer, symbolic content), every item up to the stated size in up to two writes, writer failure at every chunk boundary, cancellation, and (second harness) every placement of environment faults on open/write(short)/truncate/sync/close/remove. Success implies exact bytes and a flush after the last write; failure implies no file left.",
  "The fsync and fault clauses are claims about the POSIX model (nothing in user space observes a missing flush; a failing fsync cannot be provoked natively), so PersistFaults counterexamples are reported without native confirmation; PersistExact counterexamples are replayed against a real temporary directory. Outside: kernel behaviour, flock, directory-entry durability (Persist does not sync the directory), Windows path.",
  "DESIGN.md section 5 C13, appendix C.7"),
 "C12": (
  "Bounded symbolic model checking of the real snapshot codec and loader (Snapshot.WriteTo/ReadFrom/readFromVersion1/readSegmentSnapshot/readVarLenString/readBytes, recordSegment, countHashWriter/Reader, Writer.loadSnapshot/loadSegment, loadSegmentPlugin; bufio, io.LimitReader, binary.Uvarint, segment.Data from source): every byte string up to the stated length is decoded or rejected without panic, without an allocation a length field can push past the limit, and without touching the item's bytes after its closer ran; acceptance implies trailer == checksum of the preceding bytes, closer called once, all segments loaded; every snapshot of up to 2 (3) segments with arbitrary 64-bit ids/32-bit versions/type strings round-trips across buffer-fill boundaries.",
  "Bounds: files <= 13 bytes quick (16 thorough) for the decoder, <= 9 (13) through loadSnapshot; <= 2 (3) segments for the round trip. Stubs: roaring's serialisation (unsafe) replaced by a model codec; hash/crc32.Update replaced by a rolling checksum (the gate's compare logic is checked, CRC-32's detection strength — 'a damaged file's CRC differs' — is outside); io.CopyN by its documented contract; chunked source reader / 16-byte bufio buffer to reach buffer boundaries with short inputs; model directory (Load = private copy freed by its closer, modelling munmap) and model plugin. Native replay uses the real FileSystemDirectory with the mmap loader. Fall-back to an older snapshot is C03.",
  "DESIGN.md section 5 C12"),
 "C09": (
  "Bounded symbolic model checking of the real comparator, stores and collector: SortOrder.Compare is a strict total order agreeing with the reference meaning (lexicographic, desc flips, hit number last) for all key bytes; missing-value placement in all four (desc, missing-first) combinations and under Reverse; slice-store and heap-store AddNotExceedingSize/Final as one step from an arbitrary valid store (container/heap from source); collectSingle as the inductive step of 'store = best size+skip hits seen, marker = best dropped hit', so the lowest-outside shortcut and the search-after filter are decided for hit lists of any length; end-to-end Collect over the real pool for k <= 4 hits and all (n, from) in range incl. the preallocation cap; search-after and search-before paging; Collector() leaves the request's sort order unchanged.",
  "Bounds: keys 1-2 bytes; stores n <= 5/6 quick (10/12 thorough); k <= 4 (5) hits end to end; size+skip small (the slice/heap switch at 10 is crossed only by the store-step harnesses, the collector step uses the slice store). Excluded: a real value equal to the low placeholder 0x00 or >= ten 0xFF bytes (ties with the missing-value placeholder). Outside: sources reading real doc values (score/numeric/date sources; numeric decoding is C10), MultiSearch merging.",
  "DESIGN.md section 5 C09, appendix C.6"),
}

NA = {
 "C15": "data-race freedom needs a memory-model encoding of preemptive goroutine schedules; the symbolic executor has one logical thread and no happens-before relation, so neither races nor their absence can be decided by this technique (DESIGN.md section 7)",
}

checks = []
for pid in ids:
    if pid in CLAIMED:
        text, note, ref = CLAIMED[pid]
        checks.append({
            "property_id": pid,
            "quick_cmd": "./check %s --tier quick" % pid,
            "thorough_cmd": "./check %s --tier thorough" % pid,
            "evidence_file": "/verif/evidence/%s.json" % pid,
            "replay_cmd_template": "./check %s --replay {path}" % pid,
            "engine": "symgo",
            "level_claimed": {"category": "model_checking", "text": text, "design_ref": ref},
            "level_note": note,
            "technique": TECH,
        })

na = []
for pid in ids:
    if pid not in CLAIMED:
        na.append({"property_id": pid, "reason": NA.get(pid, "check not built yet (work in progress; see DESIGN.md section 5)")})

m = {
 "version": 1,
 "setup_cmd": "./setup.sh",
 "hooks": {
  "guard": "verif",
  "enable": "harness files (build tag verif) are injected with go/packages Overlay for analysis and go test -overlay for native replay; nothing is committed to /repo for instrumentation",
  "baseline_off_cmd": "cd /repo && go test -vet=off -count=1 -timeout 25m ./...",
  "source_commits": [],
  "add_only": True,
 },
 "engines": [{"name": "symgo", "path": "/verif/engine", "serves_properties": sorted(CLAIMED),
              "kind_free_text": "own path-forking symbolic executor over go/ssa (x/tools v0.29.0) of /repo's working tree; SMT-LIB2 to z3 4.8.12 over one pipe per worker; native replay through go test -overlay"}],
 "checks": checks,
 "not_applicable": na,
 "notes": "Every check: ./check <id> [--tier quick|thorough]; exit 0 holds, 1 VIOLATION (native-confirmed counterexample), 2 INCONCLUSIVE (solver unknown, unsupported construct, bound hit, vacuous assertion or non-reproducing counterexample).",
}
json.dump(m, open(os.path.join(ROOT, 'MANIFEST.json'), 'w'), indent=1)
print("claimed:", sorted(CLAIMED), "n/a:", len(na))
