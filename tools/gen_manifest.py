#!/usr/bin/env python3
"""Regenerates /verif/MANIFEST.json from the table below (kept next to the checks so the two stay in step)."""
import json, os

ROOT = os.path.dirname(os.path.dirname(os.path.abspath(__file__)))
ids = [json.loads(l)['id'] for l in open(os.path.join(ROOT, 'properties.jsonl'))]

TECH = "solver-based: symbolic execution of the real functions' go/ssa (rebuilt from /repo on every run) with z3 deciding every branch and assertion within stated bounds; counterexamples replayed natively"

# property -> (level text, level note, design ref)
CLAIMED = {
 "C10": (
  "Bounded symbolic model checking of the real codec and range code: float<->int64 codec and prefix coding at full 64-bit width for all 64 shifts; splitInt64Range and termRange.Enumerate by loop cut (init + one arbitrary iteration + exit, so any number of iterations); bound adjustment of NewNumericRangeSearcher for all non-NaN floats; index-side terms and doc-value decoding. Every obligation is a z3 query over the SSA of the real functions; unsat = holds for all values.",
  "Outside: trip count/termination of Enumerate, the term dictionary and multi-term searcher (stubbed), geo scaling in float arithmetic, time.Time conversion of dates, -0/+0 treated by the total order (-0 below +0). Composition of the legs (index terms x split x enumerate x bounds) is an argument on paper. Trusted: go/ssa, z3, the engine's intrinsics (bytes.Compare/Equal, math.Float64bits).",
  "DESIGN.md section 5 C10, appendix C.8"),
 "C19": (
  "Bounded symbolic model checking of the real merge planner (plan/Plan, findLiveSizesAndEligibles, removeSegments, byLiveSizeDescending with sort.Sort from source): every list of n segments with symbolic sizes and every option setting in range, with the documented CalcBudget/ScoreSegments hooks returning arbitrary values on every call, gives a terminating, well-formed plan (tasks from the input, no segment twice, live sum below the maximum, no member at or above half of it), the same plan on a second run, and the one-step progress condition behind the boundedness clause.",
  "Bounds: n <= 3 quick, n <= 4 thorough; sizes < 2^40. Outside: the default float scoring and budget staircase (replaced by arbitrary-value hooks, so the result is independent of them), convergence/boundedness over histories of plan-execute cycles (only its one-step progress condition is decided), n > 4. Non-termination would surface as an unwind-bound INCONCLUSIVE, not as a VIOLATION.",
  "DESIGN.md section 5 C19"),
 "C13": (
  "Bounded symbolic model checking of the real FileSystemDirectory.Persist/fileName against a POSIX file model written in the harness: every prior file state (absent/shorter/equal/longer, symbolic content), every item up to the stated size in up to two writes, writer failure at every chunk boundary, cancellation, and (second harness) every placement of environment faults on open/write(short)/truncate/sync/close/remove. Success implies exact bytes and a flush after the last write; failure implies no file left.",
  "The fsync and fault clauses are claims about the POSIX model (nothing in user space observes a missing flush; a failing fsync cannot be provoked natively), so PersistFaults counterexamples are reported without native confirmation; PersistExact counterexamples are replayed against a real temporary directory. Outside: kernel behaviour, flock, directory-entry durability (Persist does not sync the directory), Windows path.",
  "DESIGN.md section 5 C13, appendix C.7"),
 "C12": (
  "Bounded symbolic model checking of the real snapshot codec and loader (Snapshot.WriteTo/ReadFrom/readFromVersion1/readSegmentSnapshot/readVarLenString/readBytes, recordSegment, countHashWriter/Reader, Writer.loadSnapshot/loadSegment, loadSegmentPlugin; bufio, io.LimitReader, binary.Uvarint, segment.Data from source): every byte string up to the stated length is decoded or rejected without panic, without an allocation a length field can push past the limit, and without touching the item's bytes after its closer ran; acceptance implies trailer == checksum of the preceding bytes, closer called once, all segments loaded; every snapshot of up to 2 (3) segments with arbitrary 64-bit ids/32-bit versions/type strings round-trips across buffer-fill boundaries.",
  "Bounds: files <= 13 bytes quick (16 thorough) for the decoder, <= 9 (13) through loadSnapshot; <= 2 (3) segments for the round trip. Stubs: roaring's serialisation (unsafe) replaced by a model codec; hash/crc32.Update replaced by a rolling checksum (the gate's compare logic is checked, CRC-32's detection strength — 'a damaged file's CRC differs' — is outside); io.CopyN by its documented contract; chunked source reader / 16-byte bufio buffer to reach buffer boundaries with short inputs; model directory (Load = private copy freed by its closer, modelling munmap) and model plugin. Native replay uses the real FileSystemDirectory with the mmap loader. Fall-back to an older snapshot is C03.",
  "DESIGN.md section 5 C12"),
 "C09": (
  "Bounded symbolic model checking of the real comparator, stores and collector: SortOrder.Compare is a strict total order agreeing with the reference meaning (lexicographic, desc flips, hit number last) for all key bytes; missing-value placement in all four (desc, missing-first) combinations and under Reverse; slice-store and heap-store AddNotExceedingSize/Final as one step from an arbitrary valid store (container/heap from source); collectSingle as the inductive step of 'store = best size+skip hits seen, marker = best dropped hit', so the lowest-outside shortcut and the search-after filter are decided for hit lists of any length; end-to-end Collect over the real pool for k <= 4 hits and all (n, from) in range incl. the preallocation cap; search-after and search-before paging; Collector() leaves the request's sort order unchanged.",
  "Bounds: keys 1-2 bytes; stores n <= 5/6 quick (10/12 thorough); k <= 4 (5) hits end to end; size+skip small (the slice/heap switch at 10 is crossed only by the store-step harnesses, the collector step uses the slice store). Excluded: a real value equal to the low placeholder 0x00 or >= ten 0xFF bytes (ties with the missing-value placeholder). Outside: sources reading real doc values (score/numeric/date sources; numeric decoding is C10), MultiSearch merging.",
  "DESIGN.md section 5 C09, appendix C.6"),
 "C01": (
  "One inductive step of the index from an arbitrary valid state, decided symbolically over the real introducer code (Batch.Insert/Update/Delete, Writer.introduceSegment, replaceRoot, currentSnapshot, Snapshot.Count/postingsIteratorAll/PostingsIterator/VisitStoredFields/segmentIndexAndLocalDocNumFromGlobal, segmentSnapshot.*, roaring from source): for every root (arbitrary ids with collisions, deleted sets, file/memory segments), every batch and every staleness of the optimistic pass, the reader obtained afterwards equals the abstract index (count, match-all, lookup by id, stored fields) and the representation invariant holds again, so histories of any length are covered.",
  "Bounds: roots up to 2x2 docs quick (3x1, 1x3, 2x2 with larger batches thorough), batches <= 2 documents + <= 2 deletes, one-byte ids. Trusted: the model segment (DocsMatchingTerms independent of deletions, stored fields, _id postings) stands for ice; goroutines of postingsIteratorAll run inline. Outside: segment file formats v1/v2, directory kind, Batch's analysis fan-out and the channel hand-off to the introducer loop, document shapes beyond id+payload. The duplicate-id-in-one-batch case is probed separately and listed as known finding F5.",
  "DESIGN.md section 5 C01, appendix C.1-C.3"),
 "C04": (
  "Symbolic check of reader immutability over the real introducer steps: a reader held across a real batch introduction, a real merge introduction of all segments and a real persist swap keeps the same count, documents, stored fields, segment list, offsets and deleted bitmaps (no in-place mutation of anything shared); no segment it references is released while it is open and each file segment no longer in the root is released exactly once after it closes; a postings iterator of a superseded snapshot is not recycled.",
  "Bounds: roots up to 2x1 / 1x2 quick (2x2, 3x1 thorough), batch <= 1 document + 1 delete. Steps are atomic with respect to the reader (rootLock); schedules inside a step and the addRef/replaceRoot race (needs preemptive interleaving) are outside — see C15. Real munmap and file removal under a reader are outside (model closers).",
  "DESIGN.md section 5 C04"),
 "C05": (
  "Data part of linearizability, decided symbolically: two batches prepared against the same root, each with an arbitrarily incomplete optimistic view (neither knows the other's new segment, so the introducer's recomputation path is exercised), introduced in either order by the real introduceSegment, give the sequential result in introduction order; a reader taken in between equals the prefix and is unaffected by the second introduction.",
  "Bounds: roots of <= 1 segment with all batch shapes of <= 1 document + 1 delete each, one 2-segment case (thorough: 2x2 roots, <= 2 documents). The real-time clause (a Batch call returns only after its introduction) lives in prepareSegment/introducerLoop and needs goroutine scheduling: outside tier 1. More than two concurrent batches: by induction on the step (C01).",
  "DESIGN.md section 5 C05"),
 "C06": (
  "Symbolic check of the real merge and persist introductions (introduceMerge, segmentMerge.ProcessSegmentNow, introducePersist) from an arbitrary plan-time root, merged subset and later root (more deletions on merged and other segments, merged segments fully obsoleted and gone, segments appended): content unchanged, no delete lost, nothing duplicated, skipped exactly when nothing live remains, invariant restored, merged-away file segments released once; plus a two-step run (plan on the real root, real batch with deletes, real merge introduction) that catches aliasing between snapshots.",
  "Bounds: <= 2 segments x <= 2 docs (+ 1x3) quick, 3x2 / 2x3 thorough. Trusted: the model merger implements the SegmentPlugin.Merge contract (surviving docs in order; DocumentNumbers). Outside: the real ice merger, merge planning heuristics (C19), the timing of merge phases beyond 'arbitrary earlier view'.",
  "DESIGN.md section 5 C06, appendix C.4"),
 "C11": (
  "One inductive step of KeepNLatestDeletionPolicy (Commit, Cleanup/cleanupSnapshots/cleanupSegments) from an arbitrary policy state satisfying the invariant DI, with every directory Remove free to fail: at every single Remove no snapshot among the N newest and no segment file of a snapshot still on disk is removed; afterwards the N newest commits are retained and loadable, failed removals stay scheduled, and a fault-free second clean-up leaves exactly the files of retained snapshots. Handle release exactly-once after the last user is decided in C04/C06.",
  "Bounds: N in 1..3, <= 3 retained + <= 2 (3) deletable snapshots over segment ids {1,2}, map iteration order explored for maps of <= 2 entries. Outside: the directory lock and flock-guarded removal (kernel), Close stopping the loops, the pid-file handling of a refused second writer, merged-but-skipped segment files that are never cleaned (the code's own FIXME).",
  "DESIGN.md section 5 C11, appendix C.5"),
 "C03": (
  "Symbolic check of recovery selection over the real OpenReader and Writer.loadSnapshots (with loadSnapshot, the snapshot decoder, loadSegment, replaceRoot and KeepNLatestDeletionPolicy.Commit): for every crash image of up to three snapshot files, each intact / truncated at any length / damaged in its trailer / naming a missing segment file / absent, opening never faults, fails only if snapshots exist and none loads, exposes exactly the newest loadable snapshot, continues epochs above it, tells the deletion policy about exactly the loadable snapshots oldest first, releases everything else it opened, and the recovered writer accepts a further batch (C01 step). Decoder totality on arbitrary bytes is C12; exactness of rewritten files (a once-torn epoch rewritten under its old name) is C13.",
  "Bounds: <= 3 snapshot files, one single-document segment each. Outside: which torn images a real crash can leave (prefix-consistency as an end-to-end statement over real file-system crash images), CRC collisions (CRC-32 replaced by a rolling checksum), OpenWriter's goroutine start-up and next-segment-id computation, repeated crash/recover cycles beyond 'the recovered state satisfies the C01 pre-state invariant'.",
  "DESIGN.md section 5 C03"),
 "C14": (
  "Symbolic fault enumeration over the real persistSnapshotDirect / prepareIntroducePersist / loadSegment / introducePersist / Snapshot.WriteTo with a model directory in which every Persist and Load may fail (symbolic choice per call): success implies segments persisted before the snapshot, commit only after the snapshot item is complete, in-memory segments swapped for loaded copies; failure implies a non-nil error, nothing committed, no snapshot item, no leaked handle, readers unaffected; a fault-free retry then succeeds and covers everything. loadSegment failure paths release their handle. Partial files on the real file system are C13; deletion-policy retry is C11.",
  "The introducer goroutine is modelled as running introducePersist to completion at the moment the persister hands over the loaded segments (one legal schedule). Outside tier 1: persisterLoop's error branch (waiting safe Batch calls receive the error, AsyncError fires, later acknowledgement covers earlier batches), the merger's error handling around Writer.merge, hangs (need goroutine scheduling). Model-only: a failing Persist/Load cannot be provoked on the real directory natively.",
  "DESIGN.md section 5 C14"),
 "C07": (
  "Bounded symbolic model checking of the boolean iterator protocol over the real ConjunctionSearcher, DisjunctionSliceSearcher, DisjunctionHeapSearcher (container/heap from source), BooleanSearcher, OrderedSearcherList and DocumentMatchPool: for 9 query shapes (and / or / min-should / must-not, nesting depth 2), every assignment of document numbers to the leaf postings (arbitrary overlaps) and every forward driver sequence of Next/Advance calls, the documents returned are exactly those the query's meaning selects, in increasing order, none twice, and no match object is recycled while the caller holds it.",
  "Bounds: <= 3 leaves x 2 postings (3 thorough), <= 3 driver calls (4 thorough), min-should 0..2 (3); document numbers are bytes (the searchers only compare and copy document numbers, so every order pattern of the numbers involved is covered). Leaves are model posting lists obeying the Searcher contract; the first driver call is Next, as in every library caller (Advance as the very first call on a BooleanSearcher with a required should clause loses a posting on the pinned tree — an observation outside the public query path, see DESIGN.md). Outside: phrase, multi-phrase, prefix/wildcard/regexp/fuzzy/term-range expansion (vellum automata), geo (float trigonometry), query-string analysis, depth > 2; numeric/date ranges are C10; postings across segments and query optimisations are C08.",
  "DESIGN.md section 5 C07"),
 "C20": (
  "Bounded symbolic model checking of the real highlighter (SimpleFragmenter.Fragment, SimpleHighlighter.BestFragments/BestFragment with container/heap, FragmentQueue, Fragment.Overlaps, SimpleFragmentScorer.Score, OrderTermLocations, TermLocations.MergeOverlapping, HTML and ANSI formatters; unicode/utf8 from source): no panic for every text up to the stated length (invalid UTF-8 included) and every location set with 0 <= start <= end (out of range, overlapping, unsorted); for valid UTF-8 text and token-span locations every fragment is a rune-aligned piece of the text, stripping the markers gives back exactly that piece, every marked span is one match or a merged run, fragments do not overlap and number at most num, and the best fragment contains a match when one fits.",
  "Bounds: no-fault part texts <= 3 bytes (4 thorough) with <= 2 (3) locations; faithfulness part 17 (20) rune layouts of up to 5 runes of 1-4 bytes with <= 2 (3) locations, fragment size 1..3 (4), 1..2 (3) fragments. html.EscapeString replaced by the identity on text free of HTML-special characters. Outside: longer texts, negative offsets (not producible by any analyzer), locations obtained from real searches with the bundled analyzers (arbitrary rune-aligned spans are used instead).",
  "DESIGN.md section 5 C20"),
 "C17": (
  "Symbolic equality checks over the real scorers with float arithmetic uninterpreted (so a proved equality holds for every interpretation of + - * / log, IEEE-754 included): BM25Scorer.Explain(...).Value is bit-for-bit Score(...) for all statistics, boost, k1, b, freq and norm; the idf node carries Idf(n,N) and the tree has the documented children; Score is a pure function; CompositeSumScorer: score = (sum of parts in order) * boost, explanation value = score, every node of the explanation tree is sum / boost*sum of its children; through the real conjunction, disjunction and boolean searchers the score with explanations equals the explanation's value and the score without explanations. Counterexamples are confirmed natively (several solver models are tried, since uninterpreted arithmetic can produce natively-equal witnesses).",
  "Partial claim. Decided: 'explanation value equals the score returned without it', 'a compound query scores the sum of its matching parts times its own boost', explanation tree structure. NOT decided by this technique and outside the claim: finite/positive scores and the monotonicity laws in float64 (FP division/log are beyond the solvers here), and 'each node's value equals the formula stated in its message' for the tf/idf/score nodes (algebraic identities over the reals; would need a real-arithmetic reading of the SSA that is not built — note the idf node of the pinned tree computes log(1 + (N-n) + 0.5/(n+0.5)) while its message states log(1 + (N-n+0.5)/(n+0.5)), see DESIGN.md observations).",
  "DESIGN.md section 5 C17"),
 "C16": (
  "Bounded symbolic model checking of the real collector/aggregation path (TopNCollector.Collect/collectSingle, search.Bucket.Consume/Finish, SingleValueCalculator for count/sum/min/max, WeightedAvgCalculator, TermsCalculator.Consume/Finish/Less/Swap with sort.Sort from source, RangeCalculator): for every set of k matches with arbitrary sort keys, values, weights and keywords, every size n, offset, direction and search-after key, count = number of matches, sum/avg/weighted avg = the reference fold in hit order, min/max = reference, terms bucket = direct count with nested metric and remainder accounting for every match, numeric range buckets = direct counting.",
  "Bounds: k <= 2 matches with all paging settings, k = 3 with n = 1 (thorough 3 / 4), <= 2 values per hit. Value sources are harness types (reading real doc values is C10). Float + and * uninterpreted, comparisons exact. Outside: cardinality (hyperloglog) and quantile (t-digest) sketches' estimates and monotonicity (third-party float code; they are fed through the same Consume path), date ranges (same code shape as numeric ranges), nesting depth 2, multi-valued terms remainders (the property's statement restricts the remainder clause to single-valued fields).",
  "DESIGN.md section 5 C16"),
 "C08": (
  "Kernel check, decided symbolically over the real index code with model segments: (1) the sequential offline writer (WriterOffline.Batch/doMerge/Close, OpenOfflineWriter) for every number of batches incl. zero, batch size and merge fan-in leaves exactly one snapshot naming one segment with exactly the inserted documents, removes every intermediate item, closes every handle, and opens with the ordinary reader; (2) term postings through the real Snapshot.PostingsIterator / postingsIterator.Next/Advance / segmentIndexAndLocalDocNumFromGlobal are identical, mapped back to logical documents, for every layout of the same documents over 1-3 segments with pending deletions, under any Next/Advance driver; (3) the query optimisations (optimizeConjunction, optimizeConjunctionUnadorned, optimizeDisjunctionUnadorned with the real unadorned iterators) return the documents of the plain evaluation for every layout, with and without 1-hit encoding, and never modify a segment's own postings.",
  "Bounds: <= 3 batches x <= 2 docs (5 thorough), <= 4 (5) documents over <= 3 segments, <= 3 terms. This is a kernel of the property: model segments/postings stand for ice (the OptimizablePostingsIterator contract is modelled as ice implements it), so reopen of real directories, Backup/restore, ice v1 vs v2, in-memory vs disk, MultiSearch merging, aggregations across layouts (C16 decides them per match list) and score equality (the listed known finding about merged segments lives in the bundled ice merger) are outside. Index order of documents is layout dependent (merge rounds reorder), so only multisets are compared.",
  "DESIGN.md section 5 C08"),
 "C18": (
  "Narrow subset, decided symbolically: the byte/rune-loop tokenizers (character tokenizer with an arbitrary rune predicate, letter, whitespace, single-token) on every byte string up to the stated length incl. invalid UTF-8 are total, deterministic, give 0 <= start <= end <= len(input), term = input[start:end] and non-negative position increments; the configurable rune-loop filters (length, truncate, ngram, edge-ngram, reverse, apostrophe, unique) never panic on any token bytes and keep offsets and increments valid.",
  "Bounds: inputs <= 4 bytes (5 thorough) for tokenizers, <= 3 (4) for filters; fixed parameter values; letter/whitespace restricted to U+0000-U+00FF. Outside — most of the property: the Unicode segmenter automaton, regexp tokenizer/char filter, HTML and ASCII-folding char filters, stemmers, stop/elision/compound/dictionary/normalisation filters, the 24 language analyzers, longer inputs, and the index-time/query-time agreement through a real index.",
  "DESIGN.md section 5 C18"),
}

NA = {
 "C02": "the acknowledgement (closing the persisted channel / calling the persisted-callback) happens in persisterLoop, which needs goroutine scheduling that the single-threaded symbolic executor does not have; the ordering leg that tier 1 can decide (segments persisted before the snapshot, commit only after the snapshot item is complete, failure commits nothing) is decided under C14, exact+flushed files under C13, nothing needed removed under C11, recovery picks the newest loadable snapshot under C03 (DESIGN.md section 5 C02, section 7)",
 "C15": "data-race freedom needs a memory-model encoding of preemptive goroutine schedules; the symbolic executor has one logical thread and no happens-before relation, so neither races nor their absence can be decided by this technique (DESIGN.md section 7)",
}

checks = []
for pid in ids:
    if pid in CLAIMED:
        text, note, ref = CLAIMED[pid]
        checks.append({
            "property_id": pid,
            "quick_cmd": "./check %s --tier quick" % pid,
            "thorough_cmd": "./check %s --tier thorough" % pid,
            "evidence_file": "/verif/evidence/%s.json" % pid,
            "replay_cmd_template": "./check %s --replay {path}" % pid,
            "engine": "symgo",
            "level_claimed": {"category": "model_checking", "text": text, "design_ref": ref},
            "level_note": note,
            "technique": TECH,
        })

na = []
for pid in ids:
    if pid not in CLAIMED:
        na.append({"property_id": pid, "reason": NA.get(pid, "check not built yet (work in progress; see DESIGN.md section 5)")})

m = {
 "version": 1,
 "setup_cmd": "./setup.sh",
 "hooks": {
  "guard": "verif",
  "enable": "harness files (build tag verif) are injected with go/packages Overlay for analysis and go test -overlay for native replay; nothing is committed to /repo for instrumentation",
  "baseline_off_cmd": "cd /repo && go test -vet=off -count=1 -timeout 25m ./...",
  "source_commits": [],
  "add_only": True,
 },
 "engines": [{"name": "symgo", "path": "/verif/engine", "serves_properties": sorted(CLAIMED),
              "kind_free_text": "own path-forking symbolic executor over go/ssa (x/tools v0.29.0) of /repo's working tree; SMT-LIB2 to z3 4.8.12 over one pipe per worker; native replay through go test -overlay"}],
 "checks": checks,
 "not_applicable": na,
 "notes": "Every check: ./check <id> [--tier quick|thorough]; exit 0 holds, 1 VIOLATION (native-confirmed counterexample), 2 INCONCLUSIVE (solver unknown, unsupported construct, bound hit, vacuous assertion or non-reproducing counterexample).",
}
json.dump(m, open(os.path.join(ROOT, 'MANIFEST.json'), 'w'), indent=1)
print("claimed:", sorted(CLAIMED), "n/a:", len(na))
