#!/usr/bin/env python3-vt
import json,sys,glob,jsonschema
ms=json.load(open('/root/.vp/MANIFEST.schema.json')); es=json.load(open('/root/.vp/EVIDENCE.schema.json'))
jsonschema.validate(json.load(open('/verif/MANIFEST.json')),ms); print('MANIFEST ok')
for f in sorted(glob.glob('/verif/evidence/*.json')):
    jsonschema.validate(json.load(open(f)),es); print(f,'ok')
