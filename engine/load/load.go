// Package load finds harness files, parses their directives, and builds the
// SSA program for /repo's current working tree with the harnesses overlaid.
package load

import (
	"fmt"
	"go/ast"
	"go/parser"
	"go/token"
	"os"
	"path/filepath"
	"sort"
	"strconv"
	"strings"

	"golang.org/x/tools/go/packages"
	"golang.org/x/tools/go/ssa"
	"golang.org/x/tools/go/ssa/ssautil"
)

type Param struct {
	Name string
	Type string
}

// Harness describes one VF_ function and its directives.
type Harness struct {
	Name       string // function name
	PkgDir     string // relative to repo root, "" for root
	File       string // absolute harness source path
	Property   string
	Tier       string // quick | thorough
	Cases      string // generator for quick
	CasesThor  string // generator for thorough (defaults to Cases)
	Opts       map[string]string
	Replace    [][2]string
	Cuts       [][2]string
	Bounds     []string
	Assumes    []string
	Expect     string // "" or finding id
	ReplayMode string // "" | model-only
	Params     []Param
	Doc        string
}

type Set struct {
	Root      string // /verif/harness
	Repo      string
	Harnesses []*Harness
	Files     map[string][]string // pkgDir -> harness files (absolute)
	PkgName   map[string]string   // pkgDir -> package name
}

func Discover(root, repo string) (*Set, error) {
	s := &Set{Root: root, Repo: repo, Files: map[string][]string{}, PkgName: map[string]string{}}
	err := filepath.Walk(root, func(p string, info os.FileInfo, err error) error {
		if err != nil {
			return err
		}
		if info.IsDir() || !strings.HasPrefix(info.Name(), "zz_vf_") || !strings.HasSuffix(info.Name(), ".go") {
			return nil
		}
		rel, _ := filepath.Rel(root, filepath.Dir(p))
		if rel == "." || rel == "_root" {
			rel = ""
		}
		rel = strings.TrimPrefix(rel, "_root/")
		return s.parseFile(p, rel)
	})
	sort.Slice(s.Harnesses, func(i, j int) bool { return s.Harnesses[i].Name < s.Harnesses[j].Name })
	return s, err
}

func (s *Set) parseFile(path, pkgDir string) error {
	fset := token.NewFileSet()
	f, err := parser.ParseFile(fset, path, nil, parser.ParseComments)
	if err != nil {
		return err
	}
	s.Files[pkgDir] = append(s.Files[pkgDir], path)
	s.PkgName[pkgDir] = f.Name.Name
	// file-level directives: comment groups not attached to declarations
	var fileRepl, fileCuts [][2]string
	var fileAssumes []string
	attached := map[*ast.CommentGroup]bool{}
	for _, d := range f.Decls {
		if fd, ok := d.(*ast.FuncDecl); ok && fd.Doc != nil {
			attached[fd.Doc] = true
		}
	}
	for _, cg := range f.Comments {
		if attached[cg] {
			continue
		}
		for _, c := range cg.List {
			line := strings.TrimSpace(strings.TrimPrefix(c.Text, "//"))
			switch {
			case strings.HasPrefix(line, "vf:replace "):
				fs := strings.Fields(line)
				if len(fs) == 3 {
					fileRepl = append(fileRepl, [2]string{fs[1], fs[2]})
				}
			case strings.HasPrefix(line, "vf:cut "):
				fs := strings.Fields(line)
				if len(fs) == 3 {
					fileCuts = append(fileCuts, [2]string{fs[1], fs[2]})
				}
			case strings.HasPrefix(line, "vf:assume "):
				fileAssumes = append(fileAssumes, strings.TrimPrefix(line, "vf:assume "))
			}
		}
	}
	for _, d := range f.Decls {
		fd, ok := d.(*ast.FuncDecl)
		if !ok || fd.Recv != nil || !strings.HasPrefix(fd.Name.Name, "VF_") || fd.Doc == nil {
			continue
		}
		h := &Harness{Name: fd.Name.Name, PkgDir: pkgDir, File: path, Opts: map[string]string{}, Tier: "quick"}
		h.Replace = append(h.Replace, fileRepl...)
		h.Cuts = append(h.Cuts, fileCuts...)
		h.Assumes = append(h.Assumes, fileAssumes...)
		isHarness := false
		for _, c := range fd.Doc.List {
			line := strings.TrimSpace(strings.TrimPrefix(c.Text, "//"))
			switch {
			case strings.HasPrefix(line, "vf:harness"):
				isHarness = true
				for _, kv := range strings.Fields(line)[1:] {
					i := strings.IndexByte(kv, '=')
					if i < 0 {
						continue
					}
					k, v := kv[:i], kv[i+1:]
					switch k {
					case "property":
						h.Property = v
					case "tier":
						h.Tier = v
					case "cases":
						h.Cases = v
					case "cases.thorough":
						h.CasesThor = v
					case "expect":
						h.Expect = v
					case "replay":
						h.ReplayMode = v
					default:
						h.Opts[k] = v
					}
				}
			case strings.HasPrefix(line, "vf:replace "):
				fs := strings.Fields(line)
				if len(fs) == 3 {
					h.Replace = append(h.Replace, [2]string{fs[1], fs[2]})
				}
			case strings.HasPrefix(line, "vf:cut "):
				fs := strings.Fields(line)
				if len(fs) == 3 {
					h.Cuts = append(h.Cuts, [2]string{fs[1], fs[2]})
				}
			case strings.HasPrefix(line, "vf:bounds "):
				h.Bounds = append(h.Bounds, strings.TrimPrefix(line, "vf:bounds "))
			case strings.HasPrefix(line, "vf:assume "):
				h.Assumes = append(h.Assumes, strings.TrimPrefix(line, "vf:assume "))
			default:
				if !strings.HasPrefix(line, "vf:") {
					h.Doc += line + " "
				}
			}
		}
		if !isHarness {
			continue
		}
		for _, fl := range fd.Type.Params.List {
			ts := exprString(fl.Type)
			for _, n := range fl.Names {
				h.Params = append(h.Params, Param{n.Name, ts})
			}
		}
		if h.CasesThor == "" {
			h.CasesThor = h.Cases
		}
		s.Harnesses = append(s.Harnesses, h)
	}
	return nil
}

func exprString(e ast.Expr) string {
	switch e := e.(type) {
	case *ast.Ident:
		return e.Name
	case *ast.SelectorExpr:
		return exprString(e.X) + "." + e.Sel.Name
	}
	return "?"
}

// Case is one assignment of the concrete harness parameters.
type Case struct {
	Args  []uint64
	Label string
}

// ExpandCases interprets "a:0..3;b:1,5,9" (cartesian product, parameter order).
func (h *Harness) ExpandCases(tier string) ([]Case, error) {
	gen := h.Cases
	if tier == "thorough" {
		gen = h.CasesThor
	}
	if len(h.Params) == 0 {
		return []Case{{Label: ""}}, nil
	}
	if strings.Contains(gen, "|") {
		// alternatives: union of cartesian products
		var all []Case
		seen := map[string]bool{}
		for _, alt := range strings.Split(gen, "|") {
			cs, err := h.expandOne(alt)
			if err != nil {
				return nil, err
			}
			for _, c := range cs {
				if !seen[c.Label] {
					seen[c.Label] = true
					all = append(all, c)
				}
			}
		}
		return all, nil
	}
	return h.expandOne(gen)
}

func (h *Harness) expandOne(gen string) ([]Case, error) {
	vals := map[string][]uint64{}
	for _, part := range strings.Split(gen, ";") {
		part = strings.TrimSpace(part)
		if part == "" {
			continue
		}
		i := strings.IndexByte(part, ':')
		if i < 0 {
			return nil, fmt.Errorf("%s: bad cases part %q", h.Name, part)
		}
		name, spec := part[:i], part[i+1:]
		for _, item := range strings.Split(spec, ",") {
			if j := strings.Index(item, ".."); j >= 0 {
				lo, err1 := strconv.ParseInt(item[:j], 10, 64)
				rest := item[j+2:]
				step := int64(1)
				if k := strings.IndexByte(rest, ':'); k >= 0 {
					step, _ = strconv.ParseInt(rest[k+1:], 10, 64)
					rest = rest[:k]
				}
				hi, err2 := strconv.ParseInt(rest, 10, 64)
				if err1 != nil || err2 != nil || step <= 0 {
					return nil, fmt.Errorf("%s: bad range %q", h.Name, item)
				}
				for v := lo; v <= hi; v += step {
					vals[name] = append(vals[name], uint64(v))
				}
			} else {
				v, err := strconv.ParseInt(item, 10, 64)
				if err != nil {
					return nil, fmt.Errorf("%s: bad value %q", h.Name, item)
				}
				vals[name] = append(vals[name], uint64(v))
			}
		}
	}
	cases := []Case{{}}
	for _, p := range h.Params {
		vs, ok := vals[p.Name]
		if !ok {
			return nil, fmt.Errorf("%s: no cases for parameter %s", h.Name, p.Name)
		}
		var next []Case
		for _, c := range cases {
			for _, v := range vs {
				lbl := c.Label
				if lbl != "" {
					lbl += ","
				}
				lbl += fmt.Sprintf("%s=%d", p.Name, int64(v))
				next = append(next, Case{Args: append(append([]uint64(nil), c.Args...), v), Label: lbl})
			}
		}
		cases = next
	}
	return cases, nil
}

// RTSource renders the harness runtime for a package.
func (s *Set) RTSource(pkgName string) ([]byte, error) {
	b, err := os.ReadFile(filepath.Join(s.Root, "rt.go.tmpl"))
	if err != nil {
		return nil, err
	}
	return []byte(strings.ReplaceAll(string(b), "PKGNAME", pkgName)), nil
}

// ReplayTestSource renders the TestVFReplay dispatcher for a package.
func (s *Set) ReplayTestSource(pkgDir string) []byte {
	var sb strings.Builder
	fmt.Fprintf(&sb, "//go:build verif\n\npackage %s\n\nimport \"testing\"\n\nfunc TestVFReplay(t *testing.T) {\n\tvfReplayMain(map[string]func([]uint64){\n", s.PkgName[pkgDir])
	for _, h := range s.Harnesses {
		if h.PkgDir != pkgDir {
			continue
		}
		fmt.Fprintf(&sb, "\t\t%q: func(a []uint64) { %s(", h.Name, h.Name)
		for i, p := range h.Params {
			if i > 0 {
				sb.WriteString(", ")
			}
			fmt.Fprintf(&sb, "%s(a[%d])", p.Type, i)
		}
		sb.WriteString(") },\n")
	}
	sb.WriteString("\t})\n}\n")
	return []byte(sb.String())
}

func (s *Set) repoDir(pkgDir string) string {
	if pkgDir == "" {
		return s.Repo
	}
	return filepath.Join(s.Repo, pkgDir)
}

// Overlay returns the go/packages overlay for the given package dirs.
func (s *Set) Overlay(pkgDirs []string) (map[string][]byte, error) {
	ov := map[string][]byte{}
	for _, d := range pkgDirs {
		for _, f := range s.Files[d] {
			b, err := os.ReadFile(f)
			if err != nil {
				return nil, err
			}
			ov[filepath.Join(s.repoDir(d), filepath.Base(f))] = b
		}
		rt, err := s.RTSource(s.PkgName[d])
		if err != nil {
			return nil, err
		}
		ov[filepath.Join(s.repoDir(d), "zz_vf_rt.go")] = rt
	}
	return ov, nil
}

type Program struct {
	Prog *ssa.Program
	Pkgs map[string]*ssa.Package // pkgDir -> package
	Fset *token.FileSet
}

// Load builds SSA for the packages of the given dirs (with all dependencies
// from source), from the repo's current working tree plus the overlay.
func (s *Set) Load(pkgDirs []string) (*Program, error) {
	ov, err := s.Overlay(pkgDirs)
	if err != nil {
		return nil, err
	}
	var patterns []string
	for _, d := range pkgDirs {
		if d == "" {
			patterns = append(patterns, ".")
		} else {
			patterns = append(patterns, "./"+d)
		}
	}
	cfg := &packages.Config{
		Mode:       packages.LoadAllSyntax,
		Dir:        s.Repo,
		Overlay:    ov,
		BuildFlags: []string{"-tags=verif"},
		Env:        append(os.Environ(), "GOFLAGS=-mod=mod", "GOPROXY=off", "GOSUMDB=off", "GOTOOLCHAIN=local"),
	}
	pkgs, err := packages.Load(cfg, patterns...)
	if err != nil {
		return nil, err
	}
	nerr := 0
	var first string
	packages.Visit(pkgs, nil, func(p *packages.Package) {
		for _, e := range p.Errors {
			if nerr == 0 {
				first = e.Error()
			}
			nerr++
		}
	})
	if nerr > 0 {
		return nil, fmt.Errorf("%d load errors, first: %s", nerr, first)
	}
	prog, _ := ssautil.AllPackages(pkgs, ssa.InstantiateGenerics)
	prog.Build()
	res := &Program{Prog: prog, Pkgs: map[string]*ssa.Package{}, Fset: prog.Fset}
	for _, p := range pkgs {
		for _, d := range pkgDirs {
			want := "github.com/blugelabs/bluge"
			if d != "" {
				want += "/" + d
			}
			if p.PkgPath == want {
				res.Pkgs[d] = prog.Package(p.Types)
			}
		}
	}
	return res, nil
}
