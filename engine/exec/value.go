// Package exec is the symbolic SSA interpreter of symgo. Its structure follows
// golang.org/x/tools/go/ssa/interp (the reference for the concrete semantics of
// every SSA instruction); scalars are sym.Terms, the heap shape is concrete.
package exec

import (
	"fmt"
	"go/types"
	"strings"

	"golang.org/x/tools/go/ssa"

	"verif/symgo/sym"
)

type Value interface{}

// Str is a Go string: concrete (B == nil) or with symbolic bytes (len(B) bytes).
type Str struct {
	S string
	B []*sym.Term
}

type (
	Struct []Value
	Array  []Value
	Tuple  []Value
)

// Iface is an interface value; T == nil is the nil interface.
type Iface struct {
	T types.Type
	V Value
}

type Closure struct {
	Fn  *ssa.Function
	Env []Value
}

// Bad is the poison produced by unsupported operations during package
// initialisation; using it later ends the path as unsupported.
type Bad struct{ Why string }

// Freed marks a cell whose backing memory was released (vfFree, models munmap).
type Freed struct{}

// SymPtr is the address of cells[idx] for a symbolic, in-range idx.
type SymPtr struct {
	Cells []Value
	Idx   *sym.Term // BV64
}

type Chan struct {
	Buf    []Value
	Cap    int
	Closed bool
	ElemT  types.Type
	// Handler, if set (vfOnSend), receives every value sent on the channel at
	// once: the receiving goroutine is modelled as running to completion at
	// the moment of the send.
	Handler Value
	// tier 2 bookkeeping: values sent / received so far, receivers currently blocked
	Sent, Recvd, RecvWaiters int
}

type mapEntry struct {
	K, V    Value
	deleted bool
}

type Map struct {
	KeyT    types.Type
	ents    []*mapEntry
	idx     map[string]int // canonical concrete key -> entry index
	symKeys []int          // entries whose key has symbolic parts
	n       int
}

type rangeIter struct {
	// string
	str   Str
	isStr bool
	pos   int
	// map: snapshot of entries at range start
	m    *Map
	ents []*mapEntry
}

func (s Str) Len() int {
	if s.B != nil {
		return len(s.B)
	}
	return len(s.S)
}

func (s Str) Concrete() bool { return s.B == nil }

func (s Str) Byte(i int) *sym.Term {
	if s.B != nil {
		return s.B[i]
	}
	return sym.Const(8, uint64(s.S[i]))
}

func (s Str) Bytes() []*sym.Term {
	if s.B != nil {
		return s.B
	}
	r := make([]*sym.Term, len(s.S))
	for i := 0; i < len(s.S); i++ {
		r[i] = sym.Const(8, uint64(s.S[i]))
	}
	return r
}

func strFromTerms(b []*sym.Term) Str {
	conc := true
	for _, t := range b {
		if !t.IsConst() {
			conc = false
			break
		}
	}
	if conc {
		bs := make([]byte, len(b))
		for i, t := range b {
			bs[i] = byte(t.Val)
		}
		return Str{S: string(bs)}
	}
	if len(b) == 0 {
		return Str{}
	}
	return Str{B: b}
}

func (s Str) Slice(lo, hi int) Str {
	if s.B != nil {
		return strFromTerms(s.B[lo:hi])
	}
	return Str{S: s.S[lo:hi]}
}

// ---- types --------------------------------------------------------------------

func underlying(t types.Type) types.Type { return t.Underlying() }

func isFloat(t types.Type) bool {
	b, ok := t.Underlying().(*types.Basic)
	return ok && b.Info()&types.IsFloat != 0
}

func isString(t types.Type) bool {
	b, ok := t.Underlying().(*types.Basic)
	return ok && b.Info()&types.IsString != 0
}

func isSigned(t types.Type) bool {
	b, ok := t.Underlying().(*types.Basic)
	return ok && b.Info()&types.IsInteger != 0 && b.Info()&types.IsUnsigned == 0
}

func isInteger(t types.Type) bool {
	b, ok := t.Underlying().(*types.Basic)
	return ok && b.Info()&types.IsInteger != 0
}

// width returns the bit width of a basic scalar type (0 for bool).
func width(t types.Type) uint16 {
	b, ok := t.Underlying().(*types.Basic)
	if !ok {
		panic(fmt.Sprintf("width of non-basic type %v", t))
	}
	switch b.Kind() {
	case types.Bool, types.UntypedBool:
		return 0
	case types.Int8, types.Uint8:
		return 8
	case types.Int16, types.Uint16:
		return 16
	case types.Int32, types.Uint32, types.Float32, types.UntypedRune:
		return 32
	case types.Int, types.Uint, types.Int64, types.Uint64, types.Uintptr, types.Float64, types.UntypedInt, types.UntypedFloat:
		return 64
	case types.UnsafePointer:
		return 64
	}
	panic(fmt.Sprintf("width of type %v", t))
}

// zero returns the zero value of type t.
func zero(t types.Type) Value {
	switch t := t.(type) {
	case *types.Basic:
		if t.Kind() == types.UntypedNil {
			panic("untyped nil has no zero value")
		}
		if t.Info()&types.IsString != 0 {
			return Str{}
		}
		if t.Kind() == types.UnsafePointer {
			return (*Value)(nil)
		}
		if t.Info()&types.IsComplex != 0 {
			return Bad{"complex numbers"}
		}
		return sym.Const(width(t), 0)
	case *types.Pointer:
		return (*Value)(nil)
	case *types.Array:
		a := make(Array, t.Len())
		for i := range a {
			a[i] = zero(t.Elem())
		}
		return a
	case *types.Named:
		return zero(t.Underlying())
	case *types.Alias:
		return zero(types.Unalias(t))
	case *types.Interface:
		return Iface{}
	case *types.Slice:
		return []Value(nil)
	case *types.Struct:
		s := make(Struct, t.NumFields())
		for i := range s {
			s[i] = zero(t.Field(i).Type())
		}
		return s
	case *types.Tuple:
		if t.Len() == 1 {
			return zero(t.At(0).Type())
		}
		s := make(Tuple, t.Len())
		for i := range s {
			s[i] = zero(t.At(i).Type())
		}
		return s
	case *types.Chan:
		return (*Chan)(nil)
	case *types.Map:
		return (*Map)(nil)
	case *types.Signature:
		return (*ssa.Function)(nil)
	case *types.TypeParam:
		panic("zero of type parameter")
	}
	panic(fmt.Sprint("zero: unexpected ", t))
}

// copyVal returns a copy of v; structs and arrays are copied deeply (value
// semantics), everything else is shared.
func copyVal(v Value) Value {
	switch v := v.(type) {
	case Struct:
		a := make(Struct, len(v))
		for i, x := range v {
			a[i] = copyVal(x)
		}
		return a
	case Array:
		a := make(Array, len(v))
		for i, x := range v {
			a[i] = copyVal(x)
		}
		return a
	}
	return v
}

// ---- debugging ------------------------------------------------------------------

func ToString(v Value) string {
	var sb strings.Builder
	writeValue(&sb, v, 0)
	return sb.String()
}

func termStr(t *sym.Term) string {
	if t.IsConst() {
		if t.W == 0 {
			if t.Val == 1 {
				return "true"
			}
			return "false"
		}
		return fmt.Sprintf("%d", t.Val)
	}
	if t.Op == sym.OVar {
		return "$" + t.Name
	}
	return fmt.Sprintf("$t%d", t.ID())
}

func writeValue(sb *strings.Builder, v Value, depth int) {
	if depth > 4 {
		sb.WriteString("...")
		return
	}
	switch v := v.(type) {
	case nil:
		sb.WriteString("<nil>")
	case *sym.Term:
		sb.WriteString(termStr(v))
	case Str:
		if v.B == nil {
			fmt.Fprintf(sb, "%q", v.S)
		} else {
			sb.WriteString("str[")
			for i, b := range v.B {
				if i > 0 {
					sb.WriteByte(' ')
				}
				sb.WriteString(termStr(b))
			}
			sb.WriteString("]")
		}
	case Struct:
		sb.WriteString("{")
		for i, x := range v {
			if i > 0 {
				sb.WriteString(", ")
			}
			writeValue(sb, x, depth+1)
		}
		sb.WriteString("}")
	case Array:
		sb.WriteString("[")
		for i, x := range v {
			if i > 0 {
				sb.WriteString(", ")
			}
			writeValue(sb, x, depth+1)
		}
		sb.WriteString("]")
	case []Value:
		if v == nil {
			sb.WriteString("nil[]")
			return
		}
		sb.WriteString("[]{")
		for i, x := range v {
			if i > 0 {
				sb.WriteString(", ")
			}
			if i > 16 {
				sb.WriteString("…")
				break
			}
			writeValue(sb, x, depth+1)
		}
		sb.WriteString("}")
	case Tuple:
		sb.WriteString("(")
		for i, x := range v {
			if i > 0 {
				sb.WriteString(", ")
			}
			writeValue(sb, x, depth+1)
		}
		sb.WriteString(")")
	case Iface:
		if v.T == nil {
			sb.WriteString("nil-iface")
			return
		}
		fmt.Fprintf(sb, "iface(%s:", v.T)
		writeValue(sb, v.V, depth+1)
		sb.WriteString(")")
	case *Value:
		if v == nil {
			sb.WriteString("nil-ptr")
		} else {
			sb.WriteString("&")
			writeValue(sb, *v, depth+1)
		}
	case *Map:
		if v == nil {
			sb.WriteString("nil-map")
			return
		}
		sb.WriteString("map{")
		for _, e := range v.ents {
			if e.deleted {
				continue
			}
			writeValue(sb, e.K, depth+1)
			sb.WriteString(":")
			writeValue(sb, e.V, depth+1)
			sb.WriteString(" ")
		}
		sb.WriteString("}")
	case *ssa.Function:
		if v == nil {
			sb.WriteString("nil-func")
		} else {
			sb.WriteString(v.String())
		}
	case *Closure:
		sb.WriteString("closure " + v.Fn.String())
	case Bad:
		sb.WriteString("BAD(" + v.Why + ")")
	default:
		fmt.Fprintf(sb, "%T", v)
	}
}
