package exec

import (
	"fmt"
	"go/types"
	"math"
	"strings"

	"golang.org/x/tools/go/ssa"

	"verif/symgo/sym"
)

type intrinsic func(ex *Exec, caller *frame, fn *ssa.Function, args []Value, site ssa.Instruction) Value

func (ex *Exec) callBuiltin(fr *frame, fn *ssa.Builtin, args []Value, site ssa.Instruction) Value {
	switch fn.Name() {
	case "append":
		if len(args) == 1 {
			return args[0]
		}
		dst, _ := args[0].([]Value)
		var src []Value
		switch s := args[1].(type) {
		case Str: // append([]byte, string...)
			src = make([]Value, s.Len())
			for i := range src {
				src[i] = s.Byte(i)
			}
		case []Value:
			src = s
		default:
			ex.badCell(args[1], "append")
		}
		return ex.appendSlice(dst, src)

	case "copy":
		dst, _ := args[0].([]Value)
		var src []Value
		switch s := args[1].(type) {
		case Str:
			src = make([]Value, s.Len())
			for i := range src {
				src[i] = s.Byte(i)
			}
		case []Value:
			src = s
		default:
			ex.badCell(args[1], "copy")
		}
		n := len(dst)
		if len(src) < n {
			n = len(src)
		}
		ex.copyCells(dst[:n], src[:n])
		return sym.Const(64, uint64(n))

	case "close":
		ex.chanClose(fr, site, args[0])
		return nil

	case "delete":
		m := args[0].(*Map)
		if m != nil {
			ex.mapDelete(fr, site, m, args[1])
		}
		return nil

	case "print", "println":
		return nil

	case "len":
		switch x := args[0].(type) {
		case Str:
			return sym.Const(64, uint64(x.Len()))
		case Array:
			return sym.Const(64, uint64(len(x)))
		case *Value:
			return sym.Const(64, uint64(len((*x).(Array))))
		case []Value:
			return sym.Const(64, uint64(len(x)))
		case *Map:
			if x == nil {
				return sym.Const(64, 0)
			}
			return sym.Const(64, uint64(x.n))
		case *Chan:
			if x == nil {
				return sym.Const(64, 0)
			}
			return sym.Const(64, uint64(len(x.Buf)))
		}
		ex.badCell(args[0], "len")

	case "cap":
		switch x := args[0].(type) {
		case Array:
			return sym.Const(64, uint64(len(x)))
		case *Value:
			return sym.Const(64, uint64(len((*x).(Array))))
		case []Value:
			return sym.Const(64, uint64(cap(x)))
		case *Chan:
			if x == nil {
				return sym.Const(64, 0)
			}
			return sym.Const(64, uint64(x.Cap))
		}
		ex.badCell(args[0], "cap")

	case "min", "max":
		var t types.Type
		if sig, ok := fn.Type().(*types.Signature); ok && sig.Params().Len() > 0 {
			t = sig.Params().At(0).Type()
			if sl, ok := t.(*types.Slice); ok {
				t = sl.Elem()
			}
		}
		r, ok := args[0].(*sym.Term)
		if !ok || t == nil || !isInteger(t) {
			ex.unsupported("builtin " + fn.Name() + " on non-integers")
		}
		rest := args[1:]
		if len(args) == 2 {
			if sl, ok := args[1].([]Value); ok {
				rest = sl
			}
		}
		for _, a := range rest {
			x := a.(*sym.Term)
			var less *sym.Term
			if isSigned(t) {
				less = ex.ctx.Cmp(sym.OSlt, x, r)
			} else {
				less = ex.ctx.Cmp(sym.OUlt, x, r)
			}
			if fn.Name() == "max" {
				less = ex.ctx.BNot(ex.ctx.BOr(less, ex.ctx.Cmp(sym.OEq, x, r)))
			}
			r = ex.ctx.Ite(less, x, r)
		}
		return r

	case "recover":
		return ex.doRecover(fr)

	case "ssa:wrapnilchk":
		recv := args[0]
		if p, ok := recv.(*Value); ok && p == nil {
			recvType, methodName := args[1].(Str), args[2].(Str)
			msg := fmt.Sprintf("value method %s.%s called using nil *%s pointer", recvType.S, methodName.S, recvType.S)
			panic(&targetPanic{v: Str{S: msg}, runtime: true, msg: msg})
		}
		return recv

	case "String": // unsafe.String(ptr, len)
		ex.unsupported("unsafe.String")
	case "StringData", "SliceData", "Slice", "Add":
		ex.unsupported("unsafe." + fn.Name())
	case "clear":
		switch x := args[0].(type) {
		case *Map:
			if x != nil {
				for _, e := range x.ents {
					if !e.deleted {
						ex.mapDelete(fr, site, x, e.K)
					}
				}
			}
		default:
			ex.unsupported("clear of slice")
		}
		return nil
	}
	ex.unsupported("builtin " + fn.Name())
	return nil
}

func (ex *Exec) doRecover(fr *frame) Value {
	// recover() in a deferred function called during a panic of its caller
	caller := fr.caller
	if caller != nil && caller.panicking {
		caller.panicking = false
		p := caller.panic
		caller.panic = nil
		switch v := p.v.(type) {
		case Iface:
			return v
		case Str:
			return Iface{T: types.Typ[types.String], V: v}
		default:
			return Iface{T: types.Typ[types.String], V: Str{S: p.msg}}
		}
	}
	return Iface{}
}

func (ex *Exec) copyCells(dst, src []Value) {
	// overlap-safe
	tmp := make([]Value, len(src))
	for i, v := range src {
		tmp[i] = copyVal(v)
	}
	for i := range tmp {
		ex.storeInto(&dst[i], tmp[i])
	}
}

// appendSlice mirrors Go: in place when capacity suffices, else a fresh backing
// array of capacity max(needed, 2*old).
func (ex *Exec) appendSlice(dst, src []Value) []Value {
	need := len(dst) + len(src)
	if need <= cap(dst) {
		r := dst[:need]
		ex.copyCells(r[len(dst):], src)
		return r
	}
	nc := 2 * cap(dst)
	if nc < need {
		nc = need
	}
	if nc < 4 && need > 0 {
		nc = need
	}
	r := make([]Value, need, nc)
	for i, v := range dst {
		r[i] = copyVal(v)
	}
	for i, v := range src {
		r[len(dst)+i] = copyVal(v)
	}
	// the spare capacity holds zero cells lazily: nil entries are filled on
	// reslice by storeInto; give them a zero of the element kind if known
	if len(r) > 0 {
		z := r[0]
		full := r[:nc]
		for i := need; i < nc; i++ {
			full[i] = zeroLike(z)
		}
	}
	return r
}

func zeroLike(v Value) Value {
	switch v := v.(type) {
	case *sym.Term:
		return sym.Const(v.W, 0)
	case Str:
		return Str{}
	case Struct:
		r := make(Struct, len(v))
		for i := range v {
			r[i] = zeroLike(v[i])
		}
		return r
	case Array:
		r := make(Array, len(v))
		for i := range v {
			r[i] = zeroLike(v[i])
		}
		return r
	case *Value:
		return (*Value)(nil)
	case []Value:
		return []Value(nil)
	case *Map:
		return (*Map)(nil)
	case *Chan:
		return (*Chan)(nil)
	case Iface:
		return Iface{}
	case *ssa.Function, *Closure:
		return (*ssa.Function)(nil)
	}
	return nil
}

// ---- intrinsics -----------------------------------------------------------------

var intrinsics map[string]intrinsic

func cellsToTerms(ex *Exec, cells []Value, what string) []*sym.Term {
	r := make([]*sym.Term, len(cells))
	for i, c := range cells {
		t, ok := c.(*sym.Term)
		if !ok {
			ex.badCell(c, what)
		}
		r[i] = t
	}
	return r
}

func bytesOf(ex *Exec, v Value, what string) []*sym.Term {
	switch v := v.(type) {
	case Str:
		return v.Bytes()
	case []Value:
		return cellsToTerms(ex, v, what)
	}
	ex.badCell(v, what)
	return nil
}

func noop(ex *Exec, caller *frame, fn *ssa.Function, args []Value, site ssa.Instruction) Value {
	return zeroResults(fn)
}

func init() {
	intrinsics = map[string]intrinsic{
		"internal/bytealg.Equal": func(ex *Exec, fr *frame, fn *ssa.Function, a []Value, s ssa.Instruction) Value {
			x, y := bytesOf(ex, a[0], "Equal"), bytesOf(ex, a[1], "Equal")
			return ex.strEq(strFromTermsRaw(x), strFromTermsRaw(y))
		},
		"bytes.Equal": func(ex *Exec, fr *frame, fn *ssa.Function, a []Value, s ssa.Instruction) Value {
			x, y := bytesOf(ex, a[0], "Equal"), bytesOf(ex, a[1], "Equal")
			return ex.strEq(strFromTermsRaw(x), strFromTermsRaw(y))
		},
		"internal/bytealg.Compare": func(ex *Exec, fr *frame, fn *ssa.Function, a []Value, s ssa.Instruction) Value {
			return ex.bytesCompare(bytesOf(ex, a[0], "Compare"), bytesOf(ex, a[1], "Compare"))
		},
		"bytes.Compare": func(ex *Exec, fr *frame, fn *ssa.Function, a []Value, s ssa.Instruction) Value {
			return ex.bytesCompare(bytesOf(ex, a[0], "Compare"), bytesOf(ex, a[1], "Compare"))
		},
		"internal/bytealg.CompareString": func(ex *Exec, fr *frame, fn *ssa.Function, a []Value, s ssa.Instruction) Value {
			return ex.bytesCompare(bytesOf(ex, a[0], "Compare"), bytesOf(ex, a[1], "Compare"))
		},
		"strings.Compare": func(ex *Exec, fr *frame, fn *ssa.Function, a []Value, s ssa.Instruction) Value {
			return ex.bytesCompare(bytesOf(ex, a[0], "Compare"), bytesOf(ex, a[1], "Compare"))
		},
		"internal/bytealg.IndexByte":       indexByte,
		"internal/bytealg.IndexByteString": indexByte,
		"internal/bytealg.Count":           countByte,
		"internal/bytealg.CountString":     countByte,
		"internal/bytealg.Index":           indexSub,
		"internal/bytealg.IndexString":     indexSub,
		"internal/bytealg.MakeNoZero": func(ex *Exec, fr *frame, fn *ssa.Function, a []Value, s ssa.Instruction) Value {
			n := ex.allocLen(fr, s, a[0].(*sym.Term), "len")
			r := make([]Value, n)
			for i := range r {
				r[i] = sym.Const(8, 0)
			}
			return r
		},
		"internal/stringslite.Index": nil,

		"math.Float64bits":     identity,
		"math.Float64frombits": identity,
		"math.Float32bits":     identity,
		"math.Float32frombits": identity,
		"math.Abs": func(ex *Exec, fr *frame, fn *ssa.Function, a []Value, s ssa.Instruction) Value {
			return ex.ctx.FUn(sym.OFAbs, a[0].(*sym.Term))
		},
		"math.IsNaN": func(ex *Exec, fr *frame, fn *ssa.Function, a []Value, s ssa.Instruction) Value {
			return ex.ctx.FPred(sym.OFIsNaN, a[0].(*sym.Term))
		},
		"math.IsInf": func(ex *Exec, fr *frame, fn *ssa.Function, a []Value, s ssa.Instruction) Value {
			c := ex.ctx
			f := a[0].(*sym.Term)
			sign := a[1].(*sym.Term)
			if !sign.IsConst() {
				ex.unsupported("math.IsInf with symbolic sign")
			}
			inf := c.FPred(sym.OFIsInf, f)
			neg := c.Cmp(sym.OSlt, f, sym.Const(64, 0))
			switch sv := sign.SignedVal(); {
			case sv > 0:
				return c.BAnd(inf, c.BNot(neg))
			case sv < 0:
				return c.BAnd(inf, neg)
			}
			return inf
		},
		"math.Log":   mathUF("log", math.Log),
		"math.Exp":   mathUF("exp", math.Exp),
		"math.Sqrt":  mathUF("sqrt", math.Sqrt),
		"math.Floor": mathUF("floor", math.Floor),
		"math.Ceil":  mathUF("ceil", math.Ceil),
		"math.Trunc": mathUF("trunc", math.Trunc),
		"math.Log2":  mathUF("log2", math.Log2),
		"math.Log10": mathUF("log10", math.Log10),
		"math.Sin":   mathUF("sin", math.Sin),
		"math.Cos":   mathUF("cos", math.Cos),
		"math.Tan":   mathUF("tan", math.Tan),
		"math.Asin":  mathUF("asin", math.Asin),
		"math.Acos":  mathUF("acos", math.Acos),
		"math.Atan":  mathUF("atan", math.Atan),
		"math.Pow":   mathUF2("pow", math.Pow),
		"math.Atan2": mathUF2("atan2", math.Atan2),
		"math.Mod":   mathUF2("fmod", math.Mod),
		"math.Max":   nil,
		"math.Min":   nil,

		"(*sync.Mutex).Lock":      mutexLock,
		"(*sync.Mutex).Unlock":    mutexUnlock,
		"(*sync.Mutex).TryLock":   mutexTryLock,
		"(*sync.RWMutex).Lock":    rwLock,
		"(*sync.RWMutex).Unlock":  rwUnlock,
		"(*sync.RWMutex).RLock":   rwRLock,
		"(*sync.RWMutex).RUnlock": rwRUnlock,
		"(*sync.WaitGroup).Add":   wgAdd,
		"(*sync.WaitGroup).Done":  wgDone,
		"(*sync.WaitGroup).Wait":  wgWait,
		"(*sync.Pool).Get":        poolGet,
		"(*sync.Pool).Put":        noop,
		"(*sync.Once).Do":         onceDo,
		"(*sync.Cond).Broadcast":  noop,
		"(*sync.Cond).Signal":     noop,

		"sync/atomic.LoadInt32":   atomicLoad,
		"sync/atomic.LoadInt64":   atomicLoad,
		"sync/atomic.LoadUint32":  atomicLoad,
		"sync/atomic.LoadUint64":  atomicLoad,
		"sync/atomic.LoadUintptr": atomicLoad,
		"sync/atomic.LoadPointer": atomicLoad,

		"sync/atomic.StoreInt32":   atomicStore,
		"sync/atomic.StoreInt64":   atomicStore,
		"sync/atomic.StoreUint32":  atomicStore,
		"sync/atomic.StoreUint64":  atomicStore,
		"sync/atomic.StoreUintptr": atomicStore,
		"sync/atomic.StorePointer": atomicStore,

		"sync/atomic.AddInt32":   atomicAdd,
		"sync/atomic.AddInt64":   atomicAdd,
		"sync/atomic.AddUint32":  atomicAdd,
		"sync/atomic.AddUint64":  atomicAdd,
		"sync/atomic.AddUintptr": atomicAdd,

		"sync/atomic.SwapInt32":   atomicSwap,
		"sync/atomic.SwapInt64":   atomicSwap,
		"sync/atomic.SwapUint32":  atomicSwap,
		"sync/atomic.SwapUint64":  atomicSwap,
		"sync/atomic.SwapPointer": atomicSwap,

		"sync/atomic.CompareAndSwapInt32":   atomicCAS,
		"sync/atomic.CompareAndSwapInt64":   atomicCAS,
		"sync/atomic.CompareAndSwapUint32":  atomicCAS,
		"sync/atomic.CompareAndSwapUint64":  atomicCAS,
		"sync/atomic.CompareAndSwapUintptr": atomicCAS,
		"sync/atomic.CompareAndSwapPointer": atomicCAS,

		"runtime.GC":           noop,
		"runtime.KeepAlive":    noop,
		"runtime.SetFinalizer": noop,
		"runtime.GOMAXPROCS": func(ex *Exec, fr *frame, fn *ssa.Function, a []Value, s ssa.Instruction) Value {
			return sym.Const(64, 1)
		},
		"runtime.NumCPU": func(ex *Exec, fr *frame, fn *ssa.Function, a []Value, s ssa.Instruction) Value {
			return sym.Const(64, 1)
		},

		"log.Printf":            noop,
		"log.Println":           noop,
		"log.Print":             noop,
		"(*log.Logger).Printf":  noop,
		"(*log.Logger).Println": noop,
		"(*log.Logger).Print":   noop,
		"fmt.Printf":            noop,
		"fmt.Println":           noop,
		"fmt.Print":             noop,
		"fmt.Fprintf":           noop,
		"fmt.Fprintln":          noop,
		"fmt.Fprint":            noop,
		"fmt.Sprintf":           fmtSprintf,
		"fmt.Sprint":            fmtSprint,
		"fmt.Sprintln":          fmtSprint,
		"fmt.Errorf":            fmtErrorf,

		"(*strings.Builder).String": func(ex *Exec, fr *frame, fn *ssa.Function, a []Value, s ssa.Instruction) Value {
			p := a[0].(*Value)
			st := (*p).(Struct)
			buf, _ := st[1].([]Value)
			return strFromTerms(cellsToTerms(ex, buf, "Builder.String"))
		},
		"(*strings.Builder).copyCheck": noop,
		"(*strings.Builder).grow":      noop,
		"(*strings.Builder).Grow":      noop,

		"time.Now": func(ex *Exec, fr *frame, fn *ssa.Function, a []Value, s ssa.Instruction) Value {
			// an arbitrary instant: wall/ext symbolic, loc nil
			ex.nTime++
			w := ex.ctx.Var(fmt.Sprintf("time.wall#%d", ex.nTime), 64)
			e := ex.ctx.Var(fmt.Sprintf("time.ext#%d", ex.nTime), 64)
			return Struct{w, e, (*Value)(nil)}
		},
		"time.Since": func(ex *Exec, fr *frame, fn *ssa.Function, a []Value, s ssa.Instruction) Value {
			if ex.job != nil && ex.job.Meta["clock"] == "zero" {
				// durations only feed statistics in the code under test; concretised on request
				return sym.Const(64, 0)
			}
			ex.nTime++
			return ex.ctx.Var(fmt.Sprintf("time.since#%d", ex.nTime), 64)
		},
		"time.Sleep": func(ex *Exec, fr *frame, fn *ssa.Function, a []Value, s ssa.Instruction) Value {
			if ex.schedOn() {
				ex.yield()
			}
			return nil
		},
		"time.After": func(ex *Exec, fr *frame, fn *ssa.Function, a []Value, s ssa.Instruction) Value {
			// a timer that has already fired (one legal timing)
			ex.nTime++
			w := ex.ctx.Var(fmt.Sprintf("time.wall#%d", ex.nTime), 64)
			e := ex.ctx.Var(fmt.Sprintf("time.ext#%d", ex.nTime), 64)
			return &Chan{Cap: 1, Buf: []Value{Struct{w, e, (*Value)(nil)}}, ElemT: fn.Signature.Results().At(0).Type().Underlying().(*types.Chan).Elem()}
		},
		"runtime.Gosched": func(ex *Exec, fr *frame, fn *ssa.Function, a []Value, s ssa.Instruction) Value {
			if ex.schedOn() {
				ex.yield()
			}
			return nil
		},

		"sort.Slice":       sortSlice,
		"sort.SliceStable": sortSlice,

		"os.Getpid": func(ex *Exec, fr *frame, fn *ssa.Function, a []Value, s ssa.Instruction) Value {
			return sym.Const(64, 4242)
		},
		"os.Getenv": func(ex *Exec, fr *frame, fn *ssa.Function, a []Value, s ssa.Instruction) Value {
			return Str{}
		},
		"internal/godebug.(*Setting).Value": func(ex *Exec, fr *frame, fn *ssa.Function, a []Value, s ssa.Instruction) Value {
			return Str{}
		},
		"internal/godebug.(*Setting).IncNonDefault": noop,
	}
	for k, v := range intrinsics {
		if v == nil {
			delete(intrinsics, k)
		}
	}
}

func strFromTermsRaw(b []*sym.Term) Str {
	if len(b) == 0 {
		return Str{}
	}
	return Str{B: b}
}

func identity(ex *Exec, fr *frame, fn *ssa.Function, a []Value, s ssa.Instruction) Value {
	return a[0]
}

func mathUF(name string, f func(float64) float64) intrinsic {
	return func(ex *Exec, fr *frame, fn *ssa.Function, a []Value, s ssa.Instruction) Value {
		t := a[0].(*sym.Term)
		if t.IsConst() {
			return sym.Const(64, math.Float64bits(f(math.Float64frombits(t.Val))))
		}
		return ex.ctx.UF("f"+name, 64, t)
	}
}

func mathUF2(name string, f func(float64, float64) float64) intrinsic {
	return func(ex *Exec, fr *frame, fn *ssa.Function, a []Value, s ssa.Instruction) Value {
		x, y := a[0].(*sym.Term), a[1].(*sym.Term)
		if x.IsConst() && y.IsConst() {
			return sym.Const(64, math.Float64bits(f(math.Float64frombits(x.Val), math.Float64frombits(y.Val))))
		}
		return ex.ctx.UF("f"+name, 64, x, y)
	}
}

// genericIntrinsic handles body-less functions by pattern (typed atomics etc).
func genericIntrinsic(fn *ssa.Function) intrinsic {
	name := fn.String()
	switch {
	case strings.HasPrefix(name, "runtime.") || strings.HasPrefix(name, "internal/race."):
		switch fn.Name() {
		case "Acquire", "Release", "ReleaseMerge", "Disable", "Enable", "ReadRange", "WriteRange", "Read", "Write":
			return noop
		}
	}
	return nil
}

func indexByte(ex *Exec, fr *frame, fn *ssa.Function, a []Value, s ssa.Instruction) Value {
	b := bytesOf(ex, a[0], "IndexByte")
	c := a[1].(*sym.Term)
	r := sym.Const(64, ^uint64(0))
	for i := len(b) - 1; i >= 0; i-- {
		r = ex.ctx.Ite(ex.ctx.Cmp(sym.OEq, b[i], c), sym.Const(64, uint64(i)), r)
	}
	return r
}

func countByte(ex *Exec, fr *frame, fn *ssa.Function, a []Value, s ssa.Instruction) Value {
	b := bytesOf(ex, a[0], "Count")
	c := a[1].(*sym.Term)
	r := sym.Const(64, 0)
	for i := range b {
		r = ex.ctx.Bin(sym.OAdd, r, ex.ctx.BoolToBV(ex.ctx.Cmp(sym.OEq, b[i], c), 64))
	}
	return r
}

func indexSub(ex *Exec, fr *frame, fn *ssa.Function, a []Value, s ssa.Instruction) Value {
	h, n := bytesOf(ex, a[0], "Index"), bytesOf(ex, a[1], "Index")
	r := sym.Const(64, ^uint64(0))
	for i := len(h) - len(n); i >= 0; i-- {
		eq := sym.True
		for j := range n {
			eq = ex.ctx.BAnd(eq, ex.ctx.Cmp(sym.OEq, h[i+j], n[j]))
		}
		r = ex.ctx.Ite(eq, sym.Const(64, uint64(i)), r)
	}
	return r
}

// ---- sync ---------------------------------------------------------------------
// Mutexes are state machines stored in the mutex's own first word; tier 1 has
// one logical thread, so acquiring a held lock is a self-deadlock.

func mutexWord(ex *Exec, v Value) *Value {
	p := v.(*Value)
	if p == nil {
		panic(&targetPanic{v: Str{S: "nil mutex"}, runtime: true, msg: "runtime error: invalid memory address or nil pointer dereference (nil mutex)"})
	}
	// descend to the first scalar cell (skipping empty marker structs such as noCopy)
	if q := firstScalar(p); q != nil {
		return q
	}
	ex.unsupported("sync object without a state word")
	return nil
}

func firstScalar(p *Value) *Value {
	switch s := (*p).(type) {
	case Struct:
		for i := range s {
			if q := firstScalar(&s[i]); q != nil {
				return q
			}
		}
		return nil
	case Array:
		for i := range s {
			if q := firstScalar(&s[i]); q != nil {
				return q
			}
		}
		return nil
	case *sym.Term:
		return p
	}
	return nil
}

func (ex *Exec) syncPoint(fr *frame, s ssa.Instruction, what string) {
	if ex.schedOn() {
		ex.preemptPoint(what + " at " + ex.instrPos(fr, s))
	}
}

func (ex *Exec) atomicPoint(fr *frame, s ssa.Instruction) {
	if ex.schedOn() && ex.job != nil && ex.job.Meta["preemptatomics"] == "1" {
		ex.preemptPoint("atomic at " + ex.instrPos(fr, s))
	}
}

func mutexLock(ex *Exec, fr *frame, fn *ssa.Function, a []Value, s ssa.Instruction) Value {
	ex.syncPoint(fr, s, "Mutex.Lock")
	w := mutexWord(ex, a[0])
	t := (*w).(*sym.Term)
	if !t.IsConst() {
		ex.unsupported("symbolic mutex state")
	}
	if t.Val != 0 {
		if ex.schedOn() {
			// held by another goroutine: wait for it
			ex.block(func() bool { return (*w).(*sym.Term).Val == 0 }, "Mutex.Lock at "+ex.instrPos(fr, s))
			t = (*w).(*sym.Term)
		} else {
			if ex.atomicDepth > 0 {
				// a harness observation (vfAtomic) met a lock held by a parked goroutine: the
				// observation cannot be indivisible on this schedule; the path is dropped
				panic(pathEnd{endInfeasible, "vfAtomic observation would block on a held mutex at " + ex.instrPos(fr, s)})
			}
			panic(pathEnd{endViolation, "self-deadlock: Lock of a mutex already held, at " + ex.instrPos(fr, s)})
		}
	}
	ex.setCell(w, sym.Const(t.W, 1))
	return nil
}

func mutexTryLock(ex *Exec, fr *frame, fn *ssa.Function, a []Value, s ssa.Instruction) Value {
	w := mutexWord(ex, a[0])
	t := (*w).(*sym.Term)
	if t.Val != 0 {
		return sym.False
	}
	ex.setCell(w, sym.Const(t.W, 1))
	return sym.True
}

func mutexUnlock(ex *Exec, fr *frame, fn *ssa.Function, a []Value, s ssa.Instruction) Value {
	ex.syncPoint(fr, s, "Mutex.Unlock")
	w := mutexWord(ex, a[0])
	t := (*w).(*sym.Term)
	if t.Val == 0 {
		panic(&targetPanic{v: Str{S: "sync: unlock of unlocked mutex"}, runtime: true, msg: "fatal error: sync: unlock of unlocked mutex", site: ex.instrPos(fr, s)})
	}
	ex.setCell(w, sym.Const(t.W, 0))
	return nil
}

// RWMutex: first word of the embedded Mutex w: 0 free, 1 write-locked, 1000+n readers
func rwLock(ex *Exec, fr *frame, fn *ssa.Function, a []Value, s ssa.Instruction) Value {
	ex.syncPoint(fr, s, "RWMutex.Lock")
	w := mutexWord(ex, a[0])
	t := (*w).(*sym.Term)
	if t.Val != 0 {
		if ex.schedOn() {
			ex.block(func() bool { return (*w).(*sym.Term).Val == 0 }, "RWMutex.Lock at "+ex.instrPos(fr, s))
			t = (*w).(*sym.Term)
		} else {
			panic(pathEnd{endViolation, "self-deadlock: RWMutex.Lock while held, at " + ex.instrPos(fr, s)})
		}
	}
	ex.setCell(w, sym.Const(t.W, 1))
	return nil
}

func rwUnlock(ex *Exec, fr *frame, fn *ssa.Function, a []Value, s ssa.Instruction) Value {
	ex.syncPoint(fr, s, "RWMutex.Unlock")
	w := mutexWord(ex, a[0])
	t := (*w).(*sym.Term)
	if t.Val != 1 {
		panic(&targetPanic{v: Str{S: "sync: Unlock of unlocked RWMutex"}, runtime: true, msg: "fatal error: sync: Unlock of unlocked RWMutex", site: ex.instrPos(fr, s)})
	}
	ex.setCell(w, sym.Const(t.W, 0))
	return nil
}

func rwRLock(ex *Exec, fr *frame, fn *ssa.Function, a []Value, s ssa.Instruction) Value {
	ex.syncPoint(fr, s, "RWMutex.RLock")
	w := mutexWord(ex, a[0])
	t := (*w).(*sym.Term)
	if t.Val == 1 {
		if ex.schedOn() {
			ex.block(func() bool { return (*w).(*sym.Term).Val != 1 }, "RWMutex.RLock at "+ex.instrPos(fr, s))
			t = (*w).(*sym.Term)
		} else {
			panic(pathEnd{endViolation, "self-deadlock: RWMutex.RLock while write-locked, at " + ex.instrPos(fr, s)})
		}
	}
	if t.Val == 0 {
		ex.setCell(w, sym.Const(t.W, 1001))
	} else {
		ex.setCell(w, sym.Const(t.W, t.Val+1))
	}
	return nil
}

func rwRUnlock(ex *Exec, fr *frame, fn *ssa.Function, a []Value, s ssa.Instruction) Value {
	ex.syncPoint(fr, s, "RWMutex.RUnlock")
	w := mutexWord(ex, a[0])
	t := (*w).(*sym.Term)
	if t.Val < 1001 {
		panic(&targetPanic{v: Str{S: "sync: RUnlock of unlocked RWMutex"}, runtime: true, msg: "fatal error: sync: RUnlock of unlocked RWMutex", site: ex.instrPos(fr, s)})
	}
	if t.Val == 1001 {
		ex.setCell(w, sym.Const(t.W, 0))
	} else {
		ex.setCell(w, sym.Const(t.W, t.Val-1))
	}
	return nil
}

// WaitGroup counter kept in ex.wg keyed by the WaitGroup's address.
func wgAdd(ex *Exec, fr *frame, fn *ssa.Function, a []Value, s ssa.Instruction) Value {
	ex.syncPoint(fr, s, "WaitGroup.Add/Done")
	p := a[0].(*Value)
	d := a[1].(*sym.Term)
	if !d.IsConst() {
		ex.unsupported("WaitGroup.Add with symbolic delta")
	}
	old := ex.wg[p]
	ex.wg[p] = old + d.SignedVal()
	ex.undoFn(func() { ex.wg[p] = old })
	if ex.wg[p] < 0 {
		panic(&targetPanic{v: Str{S: "sync: negative WaitGroup counter"}, runtime: true, msg: "sync: negative WaitGroup counter", site: ex.instrPos(fr, s)})
	}
	return nil
}

func wgDone(ex *Exec, fr *frame, fn *ssa.Function, a []Value, s ssa.Instruction) Value {
	return wgAdd(ex, fr, fn, []Value{a[0], sym.Const(64, ^uint64(0))}, s)
}

func wgWait(ex *Exec, fr *frame, fn *ssa.Function, a []Value, s ssa.Instruction) Value {
	ex.syncPoint(fr, s, "WaitGroup.Wait")
	p := a[0].(*Value)
	if ex.wg[p] > 0 {
		if ex.schedOn() {
			ex.block(func() bool { return ex.wg[p] <= 0 }, "WaitGroup.Wait at "+ex.instrPos(fr, s))
			return nil
		}
		panic(pathEnd{endInconclusive, "would block: WaitGroup.Wait with positive counter at " + ex.instrPos(fr, s)})
	}
	return nil
}

func poolGet(ex *Exec, fr *frame, fn *ssa.Function, a []Value, s ssa.Instruction) Value {
	p := a[0].(*Value)
	st := (*p).(Struct)
	// sync.Pool{noCopy, local, localSize, victim, victimSize, New}
	newFn := st[len(st)-1]
	switch f := newFn.(type) {
	case *ssa.Function:
		if f == nil {
			return Iface{}
		}
	}
	return ex.call(fr, newFn, nil, s)
}

func onceDo(ex *Exec, fr *frame, fn *ssa.Function, a []Value, s ssa.Instruction) Value {
	ex.syncPoint(fr, s, "Once.Do")
	w := mutexWord(ex, a[0]) // Once{done atomic.Uint32, m Mutex}: first scalar is done
	t := (*w).(*sym.Term)
	switch t.Val {
	case 0:
		// 2 = f is running; a concurrent Do waits for it like the real Once
		ex.setCell(w, sym.Const(t.W, 2))
		ex.call(fr, a[1], nil, s)
		ex.setCell(w, sym.Const(t.W, 1))
	case 2:
		if !ex.schedOn() {
			panic(pathEnd{endViolation, "self-deadlock: Once.Do called from inside its own function, at " + ex.instrPos(fr, s)})
		}
		ex.block(func() bool { return (*w).(*sym.Term).Val == 1 }, "Once.Do at "+ex.instrPos(fr, s))
	}
	return nil
}

func atomicLoad(ex *Exec, fr *frame, fn *ssa.Function, a []Value, s ssa.Instruction) Value {
	ex.atomicPoint(fr, s)
	return ex.load(fr, s, a[0])
}

func atomicStore(ex *Exec, fr *frame, fn *ssa.Function, a []Value, s ssa.Instruction) Value {
	ex.atomicPoint(fr, s)
	ex.store(fr, s, a[0], a[1])
	return nil
}

func atomicAdd(ex *Exec, fr *frame, fn *ssa.Function, a []Value, s ssa.Instruction) Value {
	ex.atomicPoint(fr, s)
	old := ex.load(fr, s, a[0]).(*sym.Term)
	nv := ex.ctx.Bin(sym.OAdd, old, a[1].(*sym.Term))
	ex.store(fr, s, a[0], nv)
	return nv
}

func atomicSwap(ex *Exec, fr *frame, fn *ssa.Function, a []Value, s ssa.Instruction) Value {
	ex.atomicPoint(fr, s)
	old := ex.load(fr, s, a[0])
	ex.store(fr, s, a[0], a[1])
	return old
}

func atomicCAS(ex *Exec, fr *frame, fn *ssa.Function, a []Value, s ssa.Instruction) Value {
	ex.atomicPoint(fr, s)
	old := ex.load(fr, s, a[0])
	eq := ex.equals(nil, old, a[1])
	if ex.branch(eq, s, fr) {
		ex.store(fr, s, a[0], a[2])
		return sym.True
	}
	return sym.False
}

// sortSlice implements sort.Slice / SliceStable with a stable insertion sort
// driven by the user's less closure (sort.Slice promises no particular
// algorithm; the result is a sorted permutation either way).
func sortSlice(ex *Exec, fr *frame, fn *ssa.Function, a []Value, s ssa.Instruction) Value {
	iface := a[0].(Iface)
	cells, ok := iface.V.([]Value)
	if !ok {
		ex.unsupported("sort.Slice on non-slice")
	}
	less := a[1]
	n := len(cells)
	for i := 1; i < n; i++ {
		for j := i; j > 0; j-- {
			r := ex.call(fr, less, []Value{sym.Const(64, uint64(j)), sym.Const(64, uint64(j-1))}, s).(*sym.Term)
			if !ex.branch(r, s, fr) {
				break
			}
			x, y := copyVal(cells[j]), copyVal(cells[j-1])
			ex.storeInto(&cells[j], y)
			ex.storeInto(&cells[j-1], x)
		}
	}
	return nil
}

// ---- fmt ----------------------------------------------------------------------

// goString renders a value for %v/%s/%d when it is concrete; ok=false otherwise.
func (ex *Exec) fmtArg(fr *frame, v Value, site ssa.Instruction) (interface{}, bool) {
	iface, ok := v.(Iface)
	if !ok {
		return nil, false
	}
	if iface.T == nil {
		return nil, true
	}
	// error / Stringer
	if m := ex.methodByName(iface.T, "Error"); m != nil {
		r := ex.call(fr, m, []Value{iface.V}, site)
		if s, ok := r.(Str); ok && s.Concrete() {
			return fmtString(s.S), true
		}
		return nil, false
	}
	if m := ex.methodByName(iface.T, "String"); m != nil && m.Signature.Params().Len() == 0 {
		r := ex.call(fr, m, []Value{iface.V}, site)
		if s, ok := r.(Str); ok && s.Concrete() {
			return fmtString(s.S), true
		}
		return nil, false
	}
	switch x := iface.V.(type) {
	case *sym.Term:
		if !x.IsConst() {
			return nil, false
		}
		b, _ := iface.T.Underlying().(*types.Basic)
		if b == nil {
			return nil, false
		}
		switch {
		case b.Info()&types.IsBoolean != 0:
			return x.Val == 1, true
		case b.Info()&types.IsFloat != 0:
			if x.W == 32 {
				return math.Float32frombits(uint32(x.Val)), true
			}
			return math.Float64frombits(x.Val), true
		case b.Info()&types.IsUnsigned != 0:
			return x.Val, true
		default:
			return x.SignedVal(), true
		}
	case Str:
		if x.Concrete() {
			return x.S, true
		}
	case []Value:
		if b, ok := iface.T.Underlying().(*types.Slice); ok {
			if e, ok := b.Elem().Underlying().(*types.Basic); ok && e.Kind() == types.Uint8 {
				bs := make([]byte, len(x))
				for i, c := range x {
					t, ok := c.(*sym.Term)
					if !ok {
						ex.badCell(c, "fmt")
					}
					if !t.IsConst() {
						return nil, false
					}
					bs[i] = byte(t.Val)
				}
				return bs, true
			}
		}
	}
	return nil, false
}

type fmtString string

func (s fmtString) String() string { return string(s) }

func (ex *Exec) methodByName(t types.Type, name string) *ssa.Function {
	ms := ex.prog.MethodSets.MethodSet(t)
	for i := 0; i < ms.Len(); i++ {
		sel := ms.At(i)
		if sel.Obj().Name() == name {
			return ex.prog.MethodValue(sel)
		}
	}
	return nil
}

func (ex *Exec) formatArgs(fr *frame, format string, args []Value, site ssa.Instruction) string {
	gargs := make([]interface{}, len(args))
	for i, a := range args {
		g, ok := ex.fmtArg(fr, a, site)
		if !ok {
			g = fmtString("<?>")
		}
		gargs[i] = g
	}
	format = strings.ReplaceAll(format, "%w", "%v")
	return fmt.Sprintf(format, gargs...)
}

func fmtSprintf(ex *Exec, fr *frame, fn *ssa.Function, a []Value, s ssa.Instruction) Value {
	f := a[0].(Str)
	args, _ := a[1].([]Value)
	if !f.Concrete() {
		return Str{S: "<symbolic format>"}
	}
	return Str{S: ex.formatArgs(fr, f.S, args, s)}
}

func fmtSprint(ex *Exec, fr *frame, fn *ssa.Function, a []Value, s ssa.Instruction) Value {
	args, _ := a[0].([]Value)
	gargs := make([]interface{}, len(args))
	for i, x := range args {
		g, ok := ex.fmtArg(fr, x, s)
		if !ok {
			g = fmtString("<?>")
		}
		gargs[i] = g
	}
	if fn.Name() == "Sprintln" {
		return Str{S: fmt.Sprintln(gargs...)}
	}
	return Str{S: fmt.Sprint(gargs...)}
}

// fmtErrorf builds a *fmt.wrapError (if %w is used) or *errors.errorString.
func fmtErrorf(ex *Exec, fr *frame, fn *ssa.Function, a []Value, s ssa.Instruction) Value {
	f := a[0].(Str)
	args, _ := a[1].([]Value)
	msg := "<symbolic format>"
	if f.Concrete() {
		msg = ex.formatArgs(fr, f.S, args, s)
	}
	var wrapped Value
	if f.Concrete() && strings.Contains(f.S, "%w") {
		// find the operand of %w: count verbs
		vi := 0
		fs := f.S
		for i := 0; i < len(fs); i++ {
			if fs[i] != '%' {
				continue
			}
			i++
			if i < len(fs) && fs[i] == '%' {
				continue
			}
			for i < len(fs) && strings.IndexByte("+-# 0123456789.*", fs[i]) >= 0 {
				i++
			}
			if i < len(fs) && fs[i] == 'w' && vi < len(args) {
				wrapped = args[vi]
				break
			}
			vi++
		}
	}
	fmtPkg := ex.prog.ImportedPackage("fmt")
	if wrapped != nil && fmtPkg != nil {
		if tn := fmtPkg.Type("wrapError"); tn != nil {
			cell := new(Value)
			*cell = Struct{Str{S: msg}, wrapped}
			return Iface{T: types.NewPointer(tn.Type()), V: cell}
		}
	}
	if errPkg := ex.prog.ImportedPackage("errors"); errPkg != nil {
		if tn := errPkg.Type("errorString"); tn != nil {
			cell := new(Value)
			*cell = Struct{Str{S: msg}}
			return Iface{T: types.NewPointer(tn.Type()), V: cell}
		}
	}
	ex.unsupported("fmt.Errorf without errors package")
	return nil
}
