package exec

import (
	"fmt"
	"go/constant"
	"go/token"
	"go/types"
	"math"
	"unicode/utf8"

	"golang.org/x/tools/go/ssa"

	"verif/symgo/sym"
)

func constantBool(c *ssa.Const) bool     { return constant.BoolVal(c.Value) }
func constantString(c *ssa.Const) string { return constant.StringVal(c.Value) }
func f64bits(f float64) uint64           { return math.Float64bits(f) }
func f32bits(f float32) uint32           { return math.Float32bits(f) }

func (ex *Exec) unop(fr *frame, instr *ssa.UnOp, x Value) Value {
	switch instr.Op {
	case token.MUL: // load
		return ex.load(fr, instr, x)
	case token.ARROW:
		return ex.chanRecv(fr, instr, x, instr.CommaOk)
	case token.SUB:
		t := x.(*sym.Term)
		if isFloat(instr.X.Type()) {
			return ex.ctx.FUn(sym.OFNeg, t)
		}
		return ex.ctx.Neg(t)
	case token.NOT:
		return ex.ctx.BNot(x.(*sym.Term))
	case token.XOR:
		return ex.ctx.Not(x.(*sym.Term))
	}
	panic(fmt.Sprintf("unop %s", instr.Op))
}

// shiftCount normalises a shift count to the width of the shifted operand,
// saturating at that width (SMT shifts by >= width give 0 / sign fill like Go).
func (ex *Exec) shiftCount(y *sym.Term, w uint16) *sym.Term {
	c := ex.ctx
	if y.W == w {
		return y
	}
	if y.W < w {
		return c.ZExt(y, w)
	}
	big := c.Cmp(sym.OUle, sym.Const(y.W, uint64(w)), y)
	return c.Ite(big, sym.Const(w, uint64(w)), c.Extract(y, w-1, 0))
}

func (ex *Exec) binop(fr *frame, instr ssa.Instruction, op token.Token, tx types.Type, x, y Value, ty types.Type) Value {
	c := ex.ctx
	switch op {
	case token.EQL:
		return ex.equals(tx, x, y)
	case token.NEQ:
		return c.BNot(ex.equals(tx, x, y))
	}
	if xs, ok := x.(Str); ok {
		ys := y.(Str)
		switch op {
		case token.ADD:
			return strConcat(xs, ys)
		case token.LSS:
			return ex.strLess(xs, ys, false)
		case token.LEQ:
			return ex.strLess(xs, ys, true)
		case token.GTR:
			return ex.strLess(ys, xs, false)
		case token.GEQ:
			return ex.strLess(ys, xs, true)
		}
		panic("string binop " + op.String())
	}
	a, ok1 := x.(*sym.Term)
	b, ok2 := y.(*sym.Term)
	if !ok1 || !ok2 {
		if bd, ok := x.(Bad); ok {
			ex.unsupported("binop on poisoned value: " + bd.Why)
		}
		if bd, ok := y.(Bad); ok {
			ex.unsupported("binop on poisoned value: " + bd.Why)
		}
		ex.unsupported(fmt.Sprintf("binop %s on %T, %T", op, x, y))
	}
	if isFloat(tx) {
		switch op {
		case token.ADD:
			return ex.fbin(sym.OFAdd, a, b)
		case token.SUB:
			return ex.fbin(sym.OFSub, a, b)
		case token.MUL:
			return ex.fbin(sym.OFMul, a, b)
		case token.QUO:
			return ex.fbin(sym.OFDiv, a, b)
		case token.LSS:
			return c.FCmp(sym.OFLt, a, b)
		case token.LEQ:
			return c.FCmp(sym.OFLe, a, b)
		case token.GTR:
			return c.FCmp(sym.OFLt, b, a)
		case token.GEQ:
			return c.FCmp(sym.OFLe, b, a)
		}
		panic("float binop " + op.String())
	}
	signed := isSigned(tx)
	switch op {
	case token.ADD:
		return c.Bin(sym.OAdd, a, b)
	case token.SUB:
		return c.Bin(sym.OSub, a, b)
	case token.MUL:
		return c.Bin(sym.OMul, a, b)
	case token.QUO, token.REM:
		nz := c.BNot(c.Cmp(sym.OEq, b, sym.Const(b.W, 0)))
		if !ex.branch(nz, instr, fr) {
			ex.runtimePanic(fr, instr, "integer divide by zero")
		}
		switch {
		case op == token.QUO && signed:
			return c.Bin(sym.OSDiv, a, b)
		case op == token.QUO:
			return c.Bin(sym.OUDiv, a, b)
		case signed:
			return c.Bin(sym.OSRem, a, b)
		default:
			return c.Bin(sym.OURem, a, b)
		}
	case token.AND:
		return c.Bin(sym.OAnd, a, b)
	case token.OR:
		return c.Bin(sym.OOr, a, b)
	case token.XOR:
		return c.Bin(sym.OXor, a, b)
	case token.AND_NOT:
		return c.Bin(sym.OAnd, a, c.Not(b))
	case token.SHL, token.SHR:
		if isSigned(ty) {
			neg := c.Cmp(sym.OSlt, b, sym.Const(b.W, 0))
			if ex.branch(neg, instr, fr) {
				ex.runtimePanic(fr, instr, "negative shift amount")
			}
		}
		cnt := ex.shiftCount(b, a.W)
		switch {
		case op == token.SHL:
			return c.Bin(sym.OShl, a, cnt)
		case signed:
			return c.Bin(sym.OAShr, a, cnt)
		default:
			return c.Bin(sym.OLShr, a, cnt)
		}
	case token.LSS:
		if signed {
			return c.Cmp(sym.OSlt, a, b)
		}
		return c.Cmp(sym.OUlt, a, b)
	case token.LEQ:
		if signed {
			return c.Cmp(sym.OSle, a, b)
		}
		return c.Cmp(sym.OUle, a, b)
	case token.GTR:
		if signed {
			return c.Cmp(sym.OSlt, b, a)
		}
		return c.Cmp(sym.OUlt, b, a)
	case token.GEQ:
		if signed {
			return c.Cmp(sym.OSle, b, a)
		}
		return c.Cmp(sym.OUle, b, a)
	}
	panic("binop " + op.String())
}

func (ex *Exec) fbin(op sym.Op, a, b *sym.Term) *sym.Term {
	return ex.ctx.FBin(op, a, b)
}

func strConcat(a, b Str) Str {
	if a.Concrete() && b.Concrete() {
		return Str{S: a.S + b.S}
	}
	r := make([]*sym.Term, 0, a.Len()+b.Len())
	r = append(r, a.Bytes()...)
	r = append(r, b.Bytes()...)
	return strFromTerms(r)
}

func (ex *Exec) strEq(a, b Str) *sym.Term {
	if a.Len() != b.Len() {
		return sym.False
	}
	if a.Concrete() && b.Concrete() {
		return sym.Bool(a.S == b.S)
	}
	r := sym.True
	for i := 0; i < a.Len(); i++ {
		r = ex.ctx.BAnd(r, ex.ctx.Cmp(sym.OEq, a.Byte(i), b.Byte(i)))
		if r.IsFalse() {
			return r
		}
	}
	return r
}

// strLess is the lexicographic a < b (or a <= b).
func (ex *Exec) strLess(a, b Str, orEq bool) *sym.Term {
	if a.Concrete() && b.Concrete() {
		if orEq {
			return sym.Bool(a.S <= b.S)
		}
		return sym.Bool(a.S < b.S)
	}
	return ex.bytesLess(a.Bytes(), b.Bytes(), orEq)
}

func (ex *Exec) bytesLess(a, b []*sym.Term, orEq bool) *sym.Term {
	c := ex.ctx
	n := len(a)
	if len(b) < n {
		n = len(b)
	}
	// result when the common prefix is equal
	var r *sym.Term
	switch {
	case len(a) < len(b):
		r = sym.True
	case len(a) == len(b):
		r = sym.Bool(orEq)
	default:
		r = sym.False
	}
	for i := n - 1; i >= 0; i-- {
		lt := c.Cmp(sym.OUlt, a[i], b[i])
		eq := c.Cmp(sym.OEq, a[i], b[i])
		r = c.BOr(lt, c.BAnd(eq, r))
	}
	return r
}

// bytesCompare is bytes.Compare as a BV64 term (-1, 0, +1).
func (ex *Exec) bytesCompare(a, b []*sym.Term) *sym.Term {
	c := ex.ctx
	lt := ex.bytesLess(a, b, false)
	gt := ex.bytesLess(b, a, false)
	return c.Ite(lt, sym.Const(64, ^uint64(0)), c.Ite(gt, sym.Const(64, 1), sym.Const(64, 0)))
}

// equals is the Go == on two values of static type t.
func (ex *Exec) equals(t types.Type, x, y Value) *sym.Term {
	c := ex.ctx
	switch x := x.(type) {
	case *sym.Term:
		yt, ok := y.(*sym.Term)
		if !ok {
			return sym.False
		}
		if x.W != yt.W {
			return sym.False
		}
		if t != nil && isFloat(t) {
			return c.FCmp(sym.OFEq, x, yt)
		}
		return c.Cmp(sym.OEq, x, yt)
	case Str:
		ys, ok := y.(Str)
		if !ok {
			return sym.False
		}
		return ex.strEq(x, ys)
	case *Value:
		yp, ok := y.(*Value)
		return sym.Bool(ok && x == yp)
	case *SymPtr:
		ex.unsupported("comparison of symbolic-index pointers")
	case *Map:
		ym, ok := y.(*Map)
		return sym.Bool(ok && x == ym)
	case *Chan:
		yc, ok := y.(*Chan)
		return sym.Bool(ok && x == yc)
	case []Value:
		// only comparable to nil
		ys, _ := y.([]Value)
		return sym.Bool(x == nil && ys == nil)
	case *ssa.Function:
		yf, ok := y.(*ssa.Function)
		if ok {
			return sym.Bool(x == yf)
		}
		return sym.Bool(x == nil && y == nil)
	case *Closure:
		if yf, ok := y.(*ssa.Function); ok && yf == nil {
			return sym.False
		}
		yc, ok := y.(*Closure)
		return sym.Bool(ok && x == yc)
	case *ssa.Builtin:
		return sym.Bool(x == y)
	case Iface:
		yi, ok := y.(Iface)
		if !ok {
			return sym.False
		}
		if x.T == nil || yi.T == nil {
			return sym.Bool(x.T == nil && yi.T == nil)
		}
		if !types.Identical(x.T, yi.T) {
			return sym.False
		}
		if !types.Comparable(x.T) {
			panic(&targetPanic{v: Str{S: "runtime error: comparing uncomparable type " + x.T.String()}, runtime: true, msg: "runtime error: comparing uncomparable type " + x.T.String()})
		}
		return ex.equals(x.T, x.V, yi.V)
	case Struct:
		ys := y.(Struct)
		st, _ := t.Underlying().(*types.Struct)
		r := sym.True
		for i := range x {
			var ft types.Type
			if st != nil {
				if st.Field(i).Name() == "_" {
					continue
				}
				ft = st.Field(i).Type()
			}
			r = c.BAnd(r, ex.equals(ft, x[i], ys[i]))
			if r.IsFalse() {
				return r
			}
		}
		return r
	case Array:
		ya := y.(Array)
		var et types.Type
		if at, ok := t.Underlying().(*types.Array); ok {
			et = at.Elem()
		}
		r := sym.True
		for i := range x {
			r = c.BAnd(r, ex.equals(et, x[i], ya[i]))
			if r.IsFalse() {
				return r
			}
		}
		return r
	case Bad:
		ex.unsupported("comparison of poisoned value: " + x.Why)
	case nil:
		return sym.Bool(y == nil)
	}
	panic(fmt.Sprintf("equals: %T vs %T", x, y))
}

// conv implements ssa.Convert.
func (ex *Exec) conv(fr *frame, instr ssa.Instruction, tdst, tsrc types.Type, x Value) Value {
	c := ex.ctx
	ud, us := tdst.Underlying(), tsrc.Underlying()
	switch us := us.(type) {
	case *types.Pointer:
		// *T -> unsafe.Pointer, or *T -> *U with identical underlying
		return x
	case *types.Slice:
		// []byte/[]rune -> string
		cells := x.([]Value)
		elem := us.Elem().Underlying().(*types.Basic)
		if elem.Kind() == types.Uint8 {
			bs := make([]*sym.Term, len(cells))
			for i, cl := range cells {
				t, ok := cl.(*sym.Term)
				if !ok {
					ex.badCell(cl, "string([]byte)")
				}
				bs[i] = t
			}
			return strFromTerms(bs)
		}
		// []rune
		allConst := true
		for _, cl := range cells {
			if t, ok := cl.(*sym.Term); !ok || !t.IsConst() {
				allConst = false
			}
		}
		if !allConst {
			// symbolic runes: the real utf8.AppendRune decides the encoding
			pkg := ex.prog.ImportedPackage("unicode/utf8")
			if pkg == nil {
				ex.unsupported("string([]rune) with symbolic runes needs unicode/utf8 in the program")
			}
			fn := pkg.Func("AppendRune")
			var bs []*sym.Term
			for _, cl := range cells {
				t, ok := cl.(*sym.Term)
				if !ok {
					ex.badCell(cl, "string([]rune)")
				}
				out := ex.callSSA(fr, fn, []Value{[]Value(nil), t}, nil, instr).([]Value)
				for _, b := range out {
					bs = append(bs, b.(*sym.Term))
				}
			}
			return strFromTerms(bs)
		}
		var buf []byte
		for _, cl := range cells {
			t := cl.(*sym.Term)
			buf = utf8.AppendRune(buf, rune(int32(t.Val)))
		}
		return Str{S: string(buf)}
	case *types.Basic:
		if us.Kind() == types.UnsafePointer {
			if _, ok := ud.(*types.Pointer); ok {
				return x
			}
			if b, ok := ud.(*types.Basic); ok && b.Kind() == types.UnsafePointer {
				return x
			}
			ex.unsupported("unsafe.Pointer -> " + tdst.String())
		}
		if us.Info()&types.IsString != 0 {
			s := x.(Str)
			switch d := ud.(type) {
			case *types.Slice:
				if d.Elem().Underlying().(*types.Basic).Kind() == types.Uint8 {
					r := make([]Value, s.Len())
					for i := range r {
						r[i] = s.Byte(i)
					}
					return r
				}
				if !s.Concrete() {
					return ex.symStringToRunes(fr, instr, s)
				}
				var r []Value
				for _, rn := range s.S {
					r = append(r, sym.Const(32, uint64(uint32(rn))))
				}
				if r == nil {
					r = []Value{}
				}
				return r
			case *types.Basic:
				if d.Info()&types.IsString != 0 {
					return x
				}
			}
			ex.unsupported("string -> " + tdst.String())
		}
		t, ok := x.(*sym.Term)
		if !ok {
			if b, isBad := x.(Bad); isBad {
				ex.unsupported("convert of poisoned value: " + b.Why)
			}
			ex.unsupported(fmt.Sprintf("convert %T to %s", x, tdst))
		}
		d, ok := ud.(*types.Basic)
		if !ok {
			ex.unsupported("convert " + tsrc.String() + " -> " + tdst.String())
		}
		switch {
		case d.Kind() == types.UnsafePointer:
			ex.unsupported("integer -> unsafe.Pointer")
		case d.Info()&types.IsString != 0:
			// integer -> string (rune)
			if !t.IsConst() {
				ex.unsupported("string(rune) with symbolic rune")
			}
			r := rune(t.SignedVal())
			if t.SignedVal() > 0x10FFFF || t.SignedVal() < 0 {
				r = utf8.RuneError
			}
			return Str{S: string(r)}
		case us.Info()&types.IsInteger != 0 && d.Info()&types.IsInteger != 0:
			dw := width(d)
			if dw <= t.W {
				return c.Extract(t, dw-1, 0)
			}
			if isSigned(us) {
				return c.SExt(t, dw)
			}
			return c.ZExt(t, dw)
		case us.Info()&types.IsInteger != 0 && d.Info()&types.IsFloat != 0:
			return c.IntToFP(t, isSigned(us), width(d))
		case us.Info()&types.IsFloat != 0 && d.Info()&types.IsInteger != 0:
			return c.FPToInt(t, isSigned(d), width(d))
		case us.Info()&types.IsFloat != 0 && d.Info()&types.IsFloat != 0:
			return c.FPToFP(t, width(d))
		case us.Info()&types.IsBoolean != 0 && d.Info()&types.IsBoolean != 0:
			return t
		}
	}
	ex.unsupported("convert " + tsrc.String() + " -> " + tdst.String())
	return nil
}

func (ex *Exec) typeAssert(fr *frame, instr *ssa.TypeAssert, xv Value) Value {
	x, ok := xv.(Iface)
	if !ok {
		ex.badCell(xv, "TypeAssert")
	}
	var v Value
	errMsg := ""
	if x.T == nil {
		errMsg = fmt.Sprintf("interface conversion: interface is nil, not %s", instr.AssertedType)
	} else if itype, ok := instr.AssertedType.Underlying().(*types.Interface); ok {
		v = x
		if meth, _ := types.MissingMethod(x.T, itype, true); meth != nil {
			errMsg = fmt.Sprintf("interface conversion: %v is not %v: missing method %s", x.T, instr.AssertedType, meth.Name())
		}
	} else if types.Identical(x.T, instr.AssertedType) {
		v = copyVal(x.V)
	} else {
		errMsg = fmt.Sprintf("interface conversion: interface is %s, not %s", x.T, instr.AssertedType)
	}
	if errMsg != "" {
		if !instr.CommaOk {
			panic(&targetPanic{v: Str{S: errMsg}, runtime: true, msg: errMsg, site: ex.instrPos(fr, instr)})
		}
		return Tuple{zero(instr.AssertedType), sym.False}
	}
	if instr.CommaOk {
		return Tuple{v, sym.True}
	}
	return v
}

// ---- range --------------------------------------------------------------------

func (ex *Exec) rangeIter(fr *frame, instr *ssa.Range, x Value) Value {
	switch x := x.(type) {
	case Str:
		return &rangeIter{isStr: true, str: x}
	case *Map:
		it := &rangeIter{m: x}
		if x != nil {
			for _, e := range x.ents {
				if !e.deleted {
					it.ents = append(it.ents, e)
				}
			}
			it.ents = ex.permuteMapOrder(fr, instr, it.ents)
		}
		return it
	}
	ex.badCell(x, "Range")
	return nil
}

func (ex *Exec) next(fr *frame, instr *ssa.Next, it *rangeIter) Value {
	if it.isStr {
		n := it.str.Len()
		if it.pos >= n {
			return Tuple{sym.False, sym.Const(64, 0), sym.Const(32, 0)}
		}
		start := it.pos
		if it.str.Concrete() {
			r, sz := utf8.DecodeRuneInString(it.str.S[it.pos:])
			it.pos += sz
			return Tuple{sym.True, sym.Const(64, uint64(start)), sym.Const(32, uint64(uint32(r)))}
		}
		r, sz := ex.decodeRuneSym(fr, instr, it.str.Slice(it.pos, n))
		it.pos += sz
		return Tuple{sym.True, sym.Const(64, uint64(start)), r}
	}
	for it.pos < len(it.ents) {
		e := it.ents[it.pos]
		it.pos++
		if e.deleted {
			continue
		}
		return Tuple{sym.True, e.K, copyVal(e.V)}
	}
	var kz, vz Value
	if tt, ok := instr.Type().(*types.Tuple); ok {
		kz, vz = zeroOrNil(tt.At(1).Type()), zeroOrNil(tt.At(2).Type())
	}
	return Tuple{sym.False, kz, vz}
}

func zeroOrNil(t types.Type) Value {
	if b, ok := t.(*types.Basic); ok && b.Kind() == types.Invalid {
		return nil
	}
	return zero(t)
}

// decodeRuneSym decodes the first rune of a symbolic string by running the real
// unicode/utf8.DecodeRuneInString from its SSA (forking on the byte classes).
func (ex *Exec) decodeRuneSym(fr *frame, instr ssa.Instruction, s Str) (*sym.Term, int) {
	pkg := ex.prog.ImportedPackage("unicode/utf8")
	if pkg == nil {
		ex.unsupported("range over symbolic string needs unicode/utf8 in the program")
	}
	fn := pkg.Func("DecodeRuneInString")
	res := ex.callSSA(fr, fn, []Value{s}, nil, instr).(Tuple)
	sz := res[1].(*sym.Term)
	n := ex.concretize(sz, instr, fr)
	return res[0].(*sym.Term), int(n)
}

func (ex *Exec) symStringToRunes(fr *frame, instr ssa.Instruction, s Str) Value {
	r := []Value{}
	pos := 0
	for pos < s.Len() {
		rn, sz := ex.decodeRuneSym(fr, instr, s.Slice(pos, s.Len()))
		r = append(r, rn)
		pos += sz
	}
	return r
}
