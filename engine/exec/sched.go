package exec

import (
	"fmt"
	"runtime/debug"
	"sort"
	"sync"

	"golang.org/x/tools/go/ssa"
)

// Tier 2: cooperative goroutines. Every target goroutine runs on its own Go
// goroutine (the interpreter recurses on the Go stack), but exactly one of them
// holds the baton at any time. A goroutine runs until it blocks (channel
// operation, select, WaitGroup.Wait, contended Lock, Sleep) or ends; which
// runnable goroutine continues is a decision of the path (forked while the
// choice budget lasts, lowest id afterwards). The Go memory model is not
// modelled: executions are sequentially consistent and non-preemptive.

const (
	gRunnable = iota
	gBlocked
	gDone
)

type gor struct {
	id     int
	wake   chan int // 1 = run, 2 = die
	state  int
	waitOn func() bool
	what   string
	depth  int
	lastRun int // value of the switch counter when this goroutine last stopped running
	settle  bool // waiting for quiescence: runs only when no other goroutine can
}

type killed struct{}

type scheduler struct {
	gs      []*gor
	cur     *gor
	fatal   interface{}
	choices int
	preempt int
	switches int
	order   int // default continuation: 0 lowest id, 1 longest waiting (FIFO), 2 highest id
	wg      sync.WaitGroup
	nextID  int
}

func (ex *Exec) schedOn() bool {
	return !ex.inInit && ex.sch != nil
}

func (ex *Exec) schedReset() {
	ex.sch = &scheduler{}
	main := &gor{id: 0, wake: make(chan int, 1), state: gRunnable, what: "main"}
	ex.sch.gs = []*gor{main}
	ex.sch.cur = main
	ex.sch.nextID = 1
}

// schedKillAll ends every goroutine that is still parked (end of a path).
func (ex *Exec) schedKillAll() {
	s := ex.sch
	if s == nil {
		return
	}
	ex.schedStats = [3]int{len(s.gs), s.switches, s.choices + s.preempt}
	for _, g := range s.gs {
		if g.id != 0 && g.state != gDone {
			g.state = gDone
			g.wake <- 2
		}
	}
	s.wg.Wait()
	ex.sch = nil
}

// spawn starts a new goroutine for a `go` statement; the spawner keeps running.
func (ex *Exec) spawn(fr *frame, instr *ssa.Go) {
	s := ex.sch
	fn, args := ex.prepareCall(fr, &instr.Call, instr)
	g := &gor{id: s.nextID, wake: make(chan int, 1), state: gRunnable, what: "go@" + ex.instrPos(fr, instr)}
	s.nextID++
	s.gs = append(s.gs, g)
	if len(s.gs) > 64 {
		ex.inconclusive("more than 64 goroutines")
	}
	s.wg.Add(1)
	go func() {
		defer s.wg.Done()
		if sig := <-g.wake; sig == 2 {
			return
		}
		defer func() {
			r := recover()
			if _, ok := r.(killed); ok {
				return
			}
			if r != nil {
				// a path-level event or an uncaught target panic in a goroutine ends the path
				if tp, ok := r.(*targetPanic); ok {
					tp.msg = "panic in goroutine: " + tp.msg
				} else if _, ok := r.(pathEnd); !ok && ex.cfg.Debug {
					fmt.Printf("engine panic in goroutine %d (%s): %v\n%s\n", g.id, g.what, r, debug.Stack())
				}
				if s.fatal == nil {
					s.fatal = r
				}
				g.state = gDone
				main := s.gs[0]
				main.wake <- 2
				return
			}
			// normal end: pass the baton on
			g.state = gDone
			ex.handOff(g, true)
		}()
		ex.call(nil, fn, args, instr)
	}()
}

// block parks the current goroutine until cond() holds.
func (ex *Exec) block(cond func() bool, what string) {
	for !cond() {
		g := ex.sch.cur
		g.state = gBlocked
		g.waitOn = cond
		g.what = what
		ex.handOff(g, false)
	}
}

// settle parks the current goroutine until no other goroutine can run (the
// harness's "let the background work finish").
func (ex *Exec) settle() {
	g := ex.sch.cur
	g.settle = true
	g.state = gRunnable
	g.what = "waiting for quiescence"
	ex.handOff(g, false)
	g.settle = false
}

// yield lets other goroutines run; the current one stays runnable.
func (ex *Exec) yield() {
	g := ex.sch.cur
	g.state = gRunnable
	ex.handOff(g, false)
}

func (g *gor) canRun() bool {
	switch g.state {
	case gRunnable:
		return true
	case gBlocked:
		return g.waitOn != nil && g.waitOn()
	}
	return false
}

// handOff chooses the next goroutine to run and transfers the baton. When the
// current goroutine is done it does not wait to be woken again.
func (ex *Exec) handOff(g *gor, done bool) {
	s := ex.sch
	var cands []*gor
	for _, x := range s.gs {
		if x != g && x.canRun() && !x.settle {
			cands = append(cands, x)
		}
	}
	if len(cands) == 0 && !(!done && g.canRun() && !g.settle) {
		// nobody else can run: goroutines waiting for quiescence continue now
		for _, x := range s.gs {
			if x != g && x.canRun() && x.settle {
				cands = append(cands, x)
			}
		}
		if !done && g.settle && g.canRun() {
			cands = append(cands, g)
		}
	}
	switch s.order {
	case 1:
		sort.SliceStable(cands, func(i, j int) bool { return cands[i].lastRun < cands[j].lastRun })
	case 2:
		sort.SliceStable(cands, func(i, j int) bool { return cands[i].id > cands[j].id })
	}
	if !done && g.canRun() && !g.settle {
		// the current goroutine may simply continue; offering it last keeps the
		// default schedule "run others first" after a yield
		cands = append(cands, g)
	}
	if len(cands) == 0 {
		var sb string
		for _, x := range s.gs {
			if x.state == gBlocked {
				sb += fmt.Sprintf(" g%d:%s", x.id, x.what)
			}
		}
		dead := pathEnd{endInconclusive, "deadlock under cooperative scheduling: every goroutine is blocked:" + sb}
		if ex.job != nil && ex.job.Meta["deadlock"] == "violation" {
			dead = pathEnd{endViolation, "hang: every goroutine is blocked:" + sb}
		}
		if ex.job != nil && ex.job.Meta["deadlock"] == "ignore" {
			// the harness states that hangs are outside its claim: the path ends here
			dead = pathEnd{endInfeasible, "hang (outside the harness's claim): every goroutine is blocked:" + sb}
		}
		if g.id == 0 {
			panic(dead)
		}
		if s.fatal == nil {
			s.fatal = dead
		}
		s.gs[0].wake <- 2
		if done {
			return
		}
		<-g.wake
		panic(killed{})
	}
	k := 0
	if len(cands) > 1 && s.choices < ex.schedBudget() {
		// delay bounding: the default continuation is free, any other candidate
		// costs one unit of the budget; choice points are offered along the whole
		// path while budget remains
		k = ex.choose(len(cands), nil, nil)
		if k != 0 {
			s.choices++
		}
	}
	next := cands[k]
	if next == g {
		g.state = gRunnable
		return
	}
	ex.switchTo(g, next, done)
}

// switchTo passes the baton from g to next and parks g until it is woken again
// (unless g is done).
func (ex *Exec) switchTo(g, next *gor, done bool) {
	s := ex.sch
	if ex.cfg.Debug {
		fmt.Printf("SCHED g%d -> g%d   [g%d: %s]\n", g.id, next.id, g.id, g.what)
	}
	next.state = gRunnable
	s.cur = next
	s.switches++
	g.lastRun = s.switches
	g.depth = ex.depth
	ex.depth = next.depth
	next.wake <- 1
	if done {
		return
	}
	sig := <-g.wake
	if sig == 2 {
		if g.id == 0 && s.fatal != nil {
			f := s.fatal
			s.fatal = nil
			panic(f)
		}
		panic(killed{})
	}
	s.cur = g
	ex.depth = g.depth
	g.state = gRunnable
}

// preemptPoint is called before every synchronisation operation. While the
// preemption budget lasts the path may switch to another runnable goroutine
// here although the current one could continue (context-bounded scheduling:
// for data-race-free code switching at synchronisation operations is enough
// to reach every behaviour with that many preemptions).
func (ex *Exec) preemptPoint(what string) {
	if !ex.schedOn() {
		return
	}
	s := ex.sch
	if s.preempt >= ex.preemptBudget() || s.choices+s.preempt >= ex.schedTotal() {
		return
	}
	g := s.cur
	var others []*gor
	for _, x := range s.gs {
		if x != g && x.canRun() && !x.settle {
			others = append(others, x)
		}
	}
	if len(others) == 0 {
		return
	}
	switch s.order {
	case 1:
		sort.SliceStable(others, func(i, j int) bool { return others[i].lastRun < others[j].lastRun })
	case 2:
		sort.SliceStable(others, func(i, j int) bool { return others[i].id > others[j].id })
	}
	if ex.choose(2, nil, nil) == 0 {
		return
	}
	s.preempt++
	k := 0
	if len(others) > 1 {
		k = ex.choose(len(others), nil, nil)
	}
	g.state = gRunnable
	g.what = "preempted before " + what
	ex.switchTo(g, others[k], false)
}

func (ex *Exec) preemptBudget() int {
	if ex.job != nil {
		if v, ok := ex.job.Meta["preempt"]; ok {
			n := 0
			fmt.Sscanf(v, "%d", &n)
			return n
		}
	}
	return 0
}

// schedTotal caps blocking-point deviations and preemptions together.
func (ex *Exec) schedTotal() int {
	if ex.job != nil {
		if v, ok := ex.job.Meta["schedtotal"]; ok && v != "" && v != "0" {
			n := 0
			fmt.Sscanf(v, "%d", &n)
			return n
		}
	}
	return 1 << 30
}

func (ex *Exec) schedBudget() int {
	if s := ex.sch; s != nil && s.choices+s.preempt >= ex.schedTotal() {
		return 0
	}
	if ex.job != nil {
		if v, ok := ex.job.Meta["schedbudget"]; ok {
			n := 0
			fmt.Sscanf(v, "%d", &n)
			return n
		}
	}
	return ex.cfg.SchedBudget
}
