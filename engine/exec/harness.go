package exec

import (
	"fmt"
	"go/types"
	"strings"

	"golang.org/x/tools/go/ssa"

	"verif/symgo/sym"
)

// The harness runtime: functions named vf* declared in zz_vf_rt.go of a harness
// package are intercepted here (their native bodies serve replay only).

func (ex *Exec) isHarnessRT(fn *ssa.Function) bool {
	if r, ok := ex.harnessRT[fn]; ok {
		return r
	}
	r := false
	if fn.Pkg != nil && ex.cfg.HarnessPkgs[fn.Pkg] && strings.HasPrefix(fn.Name(), "vf") && fn.Signature.Recv() == nil {
		if f := ex.prog.Fset.File(fn.Pos()); f != nil && strings.HasSuffix(f.Name(), "zz_vf_rt.go") {
			r = true
		}
	}
	ex.harnessRT[fn] = r
	return r
}

func (ex *Exec) inputName(args []Value) string {
	base := "in"
	if len(args) > 0 {
		if s, ok := args[0].(Str); ok && s.Concrete() {
			base = s.S
		}
	}
	n := ex.nameCount[base]
	ex.nameCount[base] = n + 1
	return fmt.Sprintf("%s#%d", base, n)
}

func (ex *Exec) newInput(name string, w uint16, typ string) *sym.Term {
	if ex.cfg.Fixed != nil {
		v := ex.cfg.Fixed[name]
		if w == 0 {
			return sym.Bool(v&1 == 1)
		}
		return sym.Const(w, v)
	}
	if w == 0 {
		// booleans are carried as a 1-bit vector compared to 1
		v := ex.ctx.Var(name, 1)
		ex.inputs = append(ex.inputs, Input{name, v, typ})
		return ex.ctx.Cmp(sym.OEq, v, sym.Const(1, 1))
	}
	v := ex.ctx.Var(name, w)
	ex.inputs = append(ex.inputs, Input{name, v, typ})
	return v
}

func (ex *Exec) callVF(fr *frame, fn *ssa.Function, args []Value, site ssa.Instruction) Value {
	c := ex.ctx
	switch fn.Name() {
	case "vfSymbolic":
		return sym.True
	case "vfScheduled":
		return sym.Bool(ex.schedOn())
	case "vfYield":
		if ex.schedOn() {
			ex.yield()
		}
		return nil
	case "vfSettle":
		if ex.schedOn() {
			ex.settle()
		}
		return nil
	case "vfPace":
		if ex.schedOn() {
			switch args[0].(*sym.Term).SignedVal() {
			case 1:
				ex.yield()
			case 2:
				ex.settle()
			}
		}
		return nil
	case "vfSchedOrder":
		if ex.sch != nil {
			ex.sch.order = int(args[0].(*sym.Term).SignedVal())
		}
		return nil
	case "vfAtomic":
		saved := ex.sch
		ex.sch = nil
		ex.atomicDepth++
		defer func() {
			ex.atomicDepth--
			ex.sch = saved
		}()
		ex.call(fr, args[0], nil, site)
		return nil
	case "vfInt64", "vfUint64", "vfInt", "vfUint", "vfFloat64":
		return ex.newInput(ex.inputName(args), 64, fn.Name()[2:])
	case "vfInt32", "vfUint32", "vfRune", "vfFloat32":
		return ex.newInput(ex.inputName(args), 32, fn.Name()[2:])
	case "vfUint16", "vfInt16":
		return ex.newInput(ex.inputName(args), 16, fn.Name()[2:])
	case "vfByte", "vfUint8", "vfInt8":
		return ex.newInput(ex.inputName(args), 8, fn.Name()[2:])
	case "vfBool":
		return ex.newInput(ex.inputName(args), 0, "Bool")
	case "vfBytes", "vfString":
		nT := args[1].(*sym.Term)
		if !nT.IsConst() {
			ex.unsupported("vfBytes with symbolic length")
		}
		base := ex.inputName(args)
		n := int(nT.Val)
		if fn.Name() == "vfString" {
			bs := make([]*sym.Term, n)
			for i := range bs {
				bs[i] = ex.newInput(fmt.Sprintf("%s[%d]", base, i), 8, "Byte")
			}
			if n == 0 {
				return Str{}
			}
			return Str{B: bs}
		}
		r := make([]Value, n)
		for i := range r {
			r[i] = ex.newInput(fmt.Sprintf("%s[%d]", base, i), 8, "Byte")
		}
		return r
	case "vfChoice":
		nT := args[1].(*sym.Term)
		if !nT.IsConst() {
			ex.unsupported("vfChoice with symbolic bound")
		}
		v := ex.newInput(ex.inputName(args), 64, "Choice")
		ok := c.Cmp(sym.OUlt, v, sym.Const(64, nT.Val))
		ex.assume(ok)
		return sym.Const(64, ex.concretize(v, site, fr))
	case "vfConcretize":
		t := args[0].(*sym.Term)
		return sym.Const(t.W, ex.concretize(t, site, fr))
	case "vfAssume":
		ex.assume(args[0].(*sym.Term))
		return nil
	case "vfAssert":
		msg := "assertion"
		if len(args) > 1 {
			if s, ok := args[1].(Str); ok && s.Concrete() {
				msg = s.S
			}
		}
		ex.assert(fr, site, args[0].(*sym.Term), msg)
		return nil
	case "vfFail":
		msg := "vfFail"
		if s, ok := args[0].(Str); ok && s.Concrete() {
			msg = s.S
		}
		ex.assert(fr, site, sym.False, msg)
		return nil
	case "vfReach":
		if s, ok := args[0].(Str); ok {
			ex.reached[s.S]++
		}
		return nil
	case "vfAllocLimit":
		t := args[0].(*sym.Term)
		ex.allocLimit = t.SignedVal()
		ex.allocLimitSet = true
		return nil
	case "vfFree":
		cells, _ := args[0].([]Value)
		cells = cells[:cap(cells)]
		for i := range cells {
			ex.setCell(&cells[i], Freed{})
		}
		return nil
	case "vfUF1":
		name := args[0].(Str).S
		return c.UF(name, 64, args[1].(*sym.Term))
	case "vfUF2":
		name := args[0].(Str).S
		return c.UF(name, 64, args[1].(*sym.Term), args[2].(*sym.Term))
	case "vfIte64":
		return c.Ite(args[0].(*sym.Term), args[1].(*sym.Term), args[2].(*sym.Term))
	case "vfAll":
		r := sym.True
		for _, a := range args[0].([]Value) {
			r = c.BAnd(r, a.(*sym.Term))
		}
		return r
	case "vfAny":
		r := sym.False
		for _, a := range args[0].([]Value) {
			r = c.BOr(r, a.(*sym.Term))
		}
		return r
	case "vfImplies":
		return c.Implies(args[0].(*sym.Term), args[1].(*sym.Term))
	case "vfOnSend":
		chI, _ := args[0].(Iface)
		hI, _ := args[1].(Iface)
		ch, ok := chI.V.(*Chan)
		if !ok || ch == nil {
			ex.unsupported("vfOnSend needs a non-nil channel")
		}
		old := ch.Handler
		ch.Handler = hI.V
		ex.undoFn(func() { ch.Handler = old })
		return nil
	case "vfObserve":
		if ex.cfg.Debug {
			fmt.Printf("OBSERVE %s = %s\n", ToString(args[0]), ToString(args[1]))
		}
		return nil
	case "vfIsConcrete":
		t, ok := args[0].(*sym.Term)
		return sym.Bool(ok && t.IsConst())
	}
	ex.unsupported("unknown harness runtime function " + fn.Name())
	return nil
}

func (ex *Exec) assume(t *sym.Term) {
	if t.IsTrue() {
		return
	}
	if t.IsFalse() {
		panic(pathEnd{endInfeasible, "assumption is false"})
	}
	if ex.pos_ < len(ex.prefix) {
		// replaying: known satisfiable
		ex.assertPC(t)
		ex.assumes++
		return
	}
	if kv, ok := ex.knownVal(t); ok && kv {
		return
	}
	if mv, ok := ex.modelVal(t); ok && mv == 1 {
		ex.assertPC(t)
		ex.assumes++
		return
	}
	r, m := ex.solver.Check(t, ex.ctx.Vars())
	if r == sym.Sat {
		ex.setModel(m)
	}
	switch r {
	case sym.Unsat:
		panic(pathEnd{endInfeasible, "assumption unsatisfiable on this path"})
	case sym.Unknown:
		ex.inconclusive("solver unknown on assumption: " + ex.solver.LastErr)
	}
	ex.assertPC(t)
	ex.assumes++
}

func (ex *Exec) assert(fr *frame, site ssa.Instruction, t *sym.Term, msg string) {
	where := msg
	if fr != nil && site != nil {
		where = msg + " @" + ex.pos(site.Pos())
	}
	ex.assertsHit[where]++
	if t.IsTrue() {
		return
	}
	if kv, ok := ex.knownVal(t); ok && kv {
		return
	}
	ex.checkDeadline()
	r := sym.Unknown
	if mv, ok := ex.modelVal(t); ok && mv == 0 {
		r = sym.Sat // the cached model of the path condition falsifies the assertion
		if ex.cfg.Debug {
			r2, _ := ex.solver.Check(ex.ctx.BNot(t), nil)
			if r2 != sym.Sat {
				fmt.Printf("MODEL-BUG: model %v falsifies %s but solver says %v\n", ex.model, sym.Dump(t), r2)
				r3, _ := ex.solver.Check(nil, nil)
				fmt.Printf("   PC alone: %v; trace=%v\n", r3, ex.trace)
			}
		}
	} else {
		r, _ = ex.solver.Check(ex.ctx.BNot(t), nil)
		if r == sym.Unknown {
			r = ex.checkFresh(ex.ctx.BNot(t))
		}
	}
	switch r {
	case sym.Unsat:
		ex.assertPC(t)
		return
	case sym.Unknown:
		ex.dumpQuery(ex.ctx.BNot(t), "assert")
		ex.inconclusive("solver unknown on assertion '" + msg + "': " + ex.solver.LastErr)
	}
	// counterexample: pin it and stop the path
	ex.assertPC(ex.ctx.BNot(t))
	site2 := ""
	if fr != nil && site != nil {
		site2 = ex.instrPos(fr, site)
	}
	v := ex.violation("assert", msg, site2)
	panic(violationEnd{v})
}

type violationEnd struct{ v *Violation }

var _ = types.Typ
