package exec

import (
	"fmt"
	"go/types"
	"os"
	"sort"
	"strconv"
	"strings"
	"sync"
	"time"

	"golang.org/x/tools/go/ssa"

	"verif/symgo/sym"
)

// Config is shared, read-only during exploration.
type Config struct {
	Replace      map[string]*ssa.Function // full function name -> harness replacement
	Cuts         map[string]*ssa.Function // full function name -> loop-cut hook
	HarnessPkgs  map[*ssa.Package]bool
	MaxSteps     int
	MaxDepth     int
	MaxSymIndex  int
	MapOrderMax  int
	ChanSlack    int // extra capacity granted to every channel (0 = exact Go semantics without blocking)
	GoInline     bool
	Sched        bool // tier 2: cooperative goroutines
	SchedBudget  int  // number of scheduling choices explored by forking
	UnwindCap    int   // max symbolic decisions at one instruction per path
	ConcCap      int   // max values enumerated when concretising one term
	AllocLimit   int64 // engine's own allocation cap (elements)
	MaxPaths     int
	QueryTimeout int // ms
	Solver       string
	Trace        bool
	Deadline     time.Time
	SkipInit     func(path string) bool
	Debug        bool
	Fixed        map[string]uint64 // concrete mode: input name -> value
	SamplesPerJob int
}

type DecKind uint8

const (
	DBranch DecKind = iota
	DConc
	DConcExcl
)

type Decision struct {
	Kind   DecKind
	N      uint64
	Forced bool
	Excl   []uint64
}

func (d Decision) String() string {
	switch d.Kind {
	case DBranch:
		if d.Forced {
			return fmt.Sprintf("b%d!", d.N)
		}
		return fmt.Sprintf("b%d", d.N)
	case DConc:
		if d.Forced {
			return fmt.Sprintf("c%d!", d.N)
		}
		return fmt.Sprintf("c%d", d.N)
	}
	return fmt.Sprintf("x%v", d.Excl)
}

// ParseDecisions reads the decision vector of a replay file (the format of
// Decision.String, space separated). ok is false when the vector holds an
// exclusion decision, which is not replayable by itself.
func ParseDecisions(s string) (ds []Decision, ok bool) {
	for _, f := range strings.Fields(s) {
		forced := strings.HasSuffix(f, "!")
		f = strings.TrimSuffix(f, "!")
		if len(f) < 2 {
			return nil, false
		}
		n, err := strconv.ParseUint(f[1:], 10, 64)
		if err != nil {
			return nil, false
		}
		switch f[0] {
		case 'b':
			ds = append(ds, Decision{Kind: DBranch, N: n, Forced: forced})
		case 'c':
			ds = append(ds, Decision{Kind: DConc, N: n, Forced: forced})
		default:
			return nil, false
		}
	}
	return ds, true
}

type Input struct {
	Name string
	Term *sym.Term
	Type string
}

type Violation struct {
	Harness   string            `json:"harness"`
	Case      string            `json:"case"`
	Kind      string            `json:"kind"` // assert | panic | fault
	Msg       string            `json:"msg"`
	Site      string            `json:"site"`
	Inputs    map[string]string `json:"inputs"`
	Decisions string            `json:"decisions"`
	Key       string            `json:"key"`
	ModelOnly bool              `json:"model_only"`
	AltInputs []map[string]string `json:"alt_inputs,omitempty"` // further models of the same counterexample path
}

type PathResult struct {
	Kind      endKind
	Why       string
	Violation *Violation
	Steps     int
	Decisions int
	Sched     [3]int
	Sample    map[string]string
}

// Exec is one worker's interpreter state.
type Exec struct {
	prog   *ssa.Program
	cfg    *Config
	ctx    *sym.Ctx
	solver *sym.Solver
	solver2 *sym.Solver
	freshRetries int

	globals      map[*ssa.Global]*Value
	finfo        map[*ssa.Function]*funcInfo
	initDone     map[*ssa.Package]bool
	initProblems []string
	tables       map[string]*sym.Table
	inInit       bool

	// per path
	trail         []undo
	undoFns       []func()
	prefix, trace []Decision
	pos_          int
	pending       [][]Decision
	inputs        []Input
	nameCount     map[string]int
	steps, depth  int
	siteCount     map[ssa.Instruction]int
	allocLimit    int64
	allocLimitSet bool
	wg            map[*Value]int64
	nTime         int
	job           *Job
	assertsHit    map[string]int
	reached       map[string]int
	assumes       int
	pcTerms       []*sym.Term
	modelOnly     bool
	model         map[string]uint64
	evalr         *sym.Evaluator
	known         map[int32]bool
	pinned        map[string]uint64 // variables the path condition equates with a constant
	pinEval       *sym.Evaluator
	sch           *scheduler
	schedStats    [3]int // goroutines, switches, deviations of the path just ended
	atomicDepth   int

	// cumulative
	funcs      map[string]string
	intrins    map[string]int
	harnessRT  map[*ssa.Function]bool
	fnames     map[*ssa.Function]string
	consts     map[*ssa.Const]Value
	cutPending *ssa.Function
	wantSample func(*Job) bool
}

type Job struct {
	Harness *ssa.Function
	Args    []uint64
	Case    string
	Name    string
	Replace map[string]*ssa.Function
	Cuts    map[string]*ssa.Function
	Meta    map[string]string
	// Prefix, when set, is the decision vector to start from; with Single the
	// alternatives met along it are not explored (exact replay of one path).
	Prefix []Decision
	Single bool
}

func NewExec(prog *ssa.Program, cfg *Config) (*Exec, error) {
	ex := &Exec{prog: prog, cfg: cfg, ctx: sym.NewCtx(),
		globals: map[*ssa.Global]*Value{}, finfo: map[*ssa.Function]*funcInfo{},
		initDone: map[*ssa.Package]bool{}, tables: map[string]*sym.Table{},
		funcs: map[string]string{}, intrins: map[string]int{}, harnessRT: map[*ssa.Function]bool{}, fnames: map[*ssa.Function]string{}, consts: map[*ssa.Const]Value{},
		wg: map[*Value]int64{}}
	mainTO := cfg.QueryTimeout
	if mainTO > 8000 {
		mainTO = 8000 // the incremental session gives up early; checkFresh retries with the full timeout
	}
	s, err := sym.NewSolver(cfg.Solver, ex.ctx, mainTO)
	if err != nil {
		return nil, err
	}
	ex.solver = s
	ex.allocLimit = cfg.AllocLimit
	return ex, nil
}

func (ex *Exec) Close() {
	ex.solver.Close()
	if ex.solver2 != nil {
		ex.solver2.Close()
	}
}

func (ex *Exec) undoFn(f func()) {
	if ex.inInit {
		return
	}
	ex.undoFns = append(ex.undoFns, f)
}

func (ex *Exec) noteFunc(fn *ssa.Function, note string) {
	if ex.inInit {
		return
	}
	name := ex.fname(fn)
	if _, ok := ex.funcs[name]; !ok {
		ex.funcs[name] = ex.pos(fn.Pos())
	}
}

func (ex *Exec) noteIntrinsic(name string) {
	if !ex.inInit {
		ex.intrins[name]++
	}
}

// ---- package initialisation ---------------------------------------------------

func defaultSkipInit(path string) bool {
	switch path {
	case "runtime", "reflect", "unsafe", "testing", "os/signal", "net", "net/http", "os/exec", "crypto/rand", "math/rand", "math/rand/v2", "syscall", "os", "log", "flag":
		return true
	}
	return strings.HasPrefix(path, "runtime/") || strings.HasPrefix(path, "internal/") ||
		strings.HasPrefix(path, "crypto/") || strings.HasPrefix(path, "golang.org/x/sys") ||
		strings.HasPrefix(path, "vendor/") || strings.HasPrefix(path, "github.com/spf13") ||
		strings.HasPrefix(path, "encoding/json") || strings.HasPrefix(path, "text/template") ||
		strings.HasPrefix(path, "golang.org/x/text") || strings.HasPrefix(path, "regexp") ||
		strings.HasPrefix(path, "testing/")
}

// EnsureInit runs the initialiser of pkg (and, through it, of its imports)
// concretely; unsupported operations poison the affected globals.
func (ex *Exec) EnsureInit(pkg *ssa.Package) {
	if ex.initDone[pkg] {
		return
	}
	ex.inInit = true
	defer func() { ex.inInit = false }()
	ex.runInit(pkg)
}

func (ex *Exec) runInit(pkg *ssa.Package) {
	if ex.initDone[pkg] {
		return
	}
	ex.initDone[pkg] = true
	skip := ex.cfg.SkipInit
	if skip == nil {
		skip = defaultSkipInit
	}
	// dependencies first, in import order
	for _, imp := range pkg.Pkg.Imports() {
		if ip := ex.prog.Package(imp); ip != nil {
			ex.runInit(ip)
		}
	}
	if skip(pkg.Pkg.Path()) {
		// leave globals at poison (see Exec.global); a few are needed as real values
		ex.seedSkipped(pkg)
		return
	}
	initFn := pkg.Func("init")
	if initFn == nil || initFn.Blocks == nil {
		return
	}
	// mark the guard so the synthesized init does not recurse into imports
	func() {
		defer func() {
			if r := recover(); r != nil {
				ex.initProblems = append(ex.initProblems, fmt.Sprintf("%s.init aborted: %v", pkg.Pkg.Path(), describePanic(r)))
			}
		}()
		ex.depth = 0
		ex.steps = 0
		t0 := time.Now()
		ex.callInit(initFn)
		if ex.cfg.Debug && time.Since(t0) > 200*time.Millisecond {
			fmt.Printf("  init %s: %v, %d steps\n", pkg.Pkg.Path(), time.Since(t0), ex.steps)
		}
	}()
}

func describePanic(r interface{}) string {
	switch r := r.(type) {
	case pathEnd:
		return r.why
	case *targetPanic:
		return r.msg
	}
	return fmt.Sprint(r)
}

// callInit runs a package's synthesized init, skipping its calls to other
// packages' inits (already done in dependency order by runInit).
func (ex *Exec) callInit(fn *ssa.Function) {
	fi := ex.info(fn)
	fr := &frame{ex: ex, fn: fn, fi: fi, env: make([]Value, fi.n)}
	fr.block = fn.Blocks[0]
	for fr.block != nil {
		ex.runFrame(fr)
	}
}

// seedSkipped gives real values to a few globals of packages whose init is not run.
func (ex *Exec) seedSkipped(pkg *ssa.Package) {
	mkErr := func(msg string) Value {
		errPkg := ex.prog.ImportedPackage("errors")
		if errPkg == nil {
			return Bad{"no errors package"}
		}
		cell := new(Value)
		*cell = Struct{Str{S: msg}}
		return Iface{T: types.NewPointer(errPkg.Type("errorString").Type()), V: cell}
	}
	set := func(name string, v Value) {
		if g, ok := pkg.Members[name].(*ssa.Global); ok {
			p := new(Value)
			*p = v
			ex.globals[g] = p
		}
	}
	switch pkg.Pkg.Path() {
	case "os":
		set("ErrNotExist", mkErr("file does not exist"))
		set("ErrExist", mkErr("file already exists"))
		set("ErrInvalid", mkErr("invalid argument"))
		set("ErrPermission", mkErr("permission denied"))
		set("ErrClosed", mkErr("file already closed"))
	case "syscall":
	}
}

// ---- decisions ------------------------------------------------------------------

// checkFresh re-decides a query the incremental session answered `unknown` in a
// second solver process with only the path condition asserted (the incremental
// core sometimes stalls on queries a fresh context decides in a second).
func (ex *Exec) checkFresh(q *sym.Term) sym.Result {
	if ex.solver2 == nil {
		s2, err := sym.NewSolver(ex.cfg.Solver, ex.ctx, ex.cfg.QueryTimeout)
		if err != nil {
			return sym.Unknown
		}
		ex.solver2 = s2
	}
	ex.solver2.Reset()
	for _, t := range ex.pcTerms {
		ex.solver2.Assert(t)
	}
	r, _ := ex.solver2.Check(q, nil)
	ex.freshRetries++
	return r
}

// dumpQuery writes path condition + query as a standalone SMT-LIB2 file (debugging).
func (ex *Exec) dumpQuery(q *sym.Term, tag string) {
	if !ex.cfg.Debug {
		return
	}
	f, err := os.CreateTemp("/tmp", "symgo-"+tag+"-*.smt2")
	if err != nil {
		return
	}
	defer f.Close()
	s2, err := sym.NewSolver(ex.cfg.Solver, ex.ctx, ex.cfg.QueryTimeout)
	if err != nil {
		return
	}
	defer s2.Close()
	s2.Log = f
	s2.TimeoutMs = 1000
	for _, t := range ex.pcTerms {
		s2.Assert(t)
	}
	s2.Check(q, nil)
	fmt.Println("  dumped unknown query to", f.Name())
}

func (ex *Exec) assertPC(t *sym.Term) {
	ex.pcTerms = append(ex.pcTerms, t)
	ex.solver.Assert(t)
	ex.learn(t, true)
	if ex.model != nil {
		if v, ok := ex.evalr.Eval(t); !ok || v != 1 {
			ex.model, ex.evalr = nil, nil
		}
	}
	ex.tryPin(t)
}

// tryPin: after asserting expr == const where expr depends on a single
// variable, one extra query decides whether that variable is now determined
// (as in a switch over a decoded rune); if so it is pinned and later conditions
// over it are decided by evaluation instead of by hundreds of unsat queries.
func (ex *Exec) tryPin(t *sym.Term) {
	if t.Op != sym.OEq || len(t.Args) != 2 {
		return
	}
	a, b := t.Args[0], t.Args[1]
	if a.Op == sym.OConst {
		a, b = b, a
	}
	if b.Op != sym.OConst || a.Op == sym.OVar {
		return
	}
	var v *sym.Term
	seen := map[*sym.Term]bool{}
	budget := 4000
	var walk func(x *sym.Term) bool
	walk = func(x *sym.Term) bool {
		if seen[x] {
			return true
		}
		seen[x] = true
		budget--
		if budget < 0 {
			return false
		}
		switch x.Op {
		case sym.OVar:
			if v != nil && v != x {
				return false
			}
			v = x
			return true
		case sym.OUF:
			return false
		}
		for _, y := range x.Args {
			if !walk(y) {
				return false
			}
		}
		return true
	}
	if !walk(a) || v == nil || v.W == 0 {
		return
	}
	if _, have := ex.pinned[v.Name]; have {
		return
	}
	r, m := ex.solver.Check(sym.True, []*sym.Term{v})
	if r != sym.Sat || m == nil {
		return
	}
	val, ok := m[v]
	if !ok {
		return
	}
	if r2, _ := ex.solver.Check(ex.ctx.BNot(ex.ctx.Cmp(sym.OEq, v, sym.Const(v.W, val))), nil); r2 != sym.Unsat {
		return
	}
	if ex.pinned == nil {
		ex.pinned = map[string]uint64{}
	}
	ex.pinned[v.Name] = val
	ex.pinEval = sym.NewEvaluator(ex.pinned)
}

// learn records the truth value of a decided condition (by term identity) so
// that the same condition met again is decided without a solver query.
func (ex *Exec) learn(t *sym.Term, val bool) {
	for t.Op == sym.OBNot {
		t, val = t.Args[0], !val
	}
	if t.IsConst() {
		return
	}
	if t.Op == sym.OBAnd && val {
		ex.learn(t.Args[0], true)
		ex.learn(t.Args[1], true)
	}
	if t.Op == sym.OBOr && !val {
		ex.learn(t.Args[0], false)
		ex.learn(t.Args[1], false)
	}
	if id := t.ID(); id != 0 {
		ex.known[id] = val
	}
	if val && t.Op == sym.OEq && len(t.Args) == 2 {
		// x == const on the path: later conditions over pinned variables only are
		// decided by evaluation
		a, b := t.Args[0], t.Args[1]
		if a.Op == sym.OConst {
			a, b = b, a
		}
		if a.Op == sym.OVar && b.Op == sym.OConst {
			if ex.pinned == nil {
				ex.pinned = map[string]uint64{}
			}
			if _, have := ex.pinned[a.Name]; !have {
				ex.pinned[a.Name] = b.Val
				ex.pinEval = sym.NewEvaluator(ex.pinned)
			}
		}
	}
}

func (ex *Exec) knownVal(t *sym.Term) (bool, bool) {
	neg := false
	for t.Op == sym.OBNot {
		t, neg = t.Args[0], !neg
	}
	if id := t.ID(); id != 0 {
		if v, ok := ex.known[id]; ok {
			return v != neg, true
		}
	}
	if ex.pinEval != nil && t.W == 0 {
		if v, ok := ex.pinEval.Eval(t); ok {
			return (v == 1) != neg, true
		}
	}
	return false, false
}

func (ex *Exec) setModel(m map[*sym.Term]uint64) {
	if m == nil {
		ex.model, ex.evalr = nil, nil
		return
	}
	ex.model = make(map[string]uint64, len(m))
	for t, v := range m {
		ex.model[t.Name] = v
	}
	ex.evalr = sym.NewEvaluator(ex.model)
}

// modelVal evaluates t under the cached model of the path condition.
func (ex *Exec) modelVal(t *sym.Term) (uint64, bool) {
	if ex.model == nil {
		return 0, false
	}
	// variables created after the model was read are unconstrained: extend with 0
	for _, v := range ex.ctx.Vars() {
		if _, ok := ex.model[v.Name]; !ok {
			ex.model[v.Name] = 0
		}
	}
	return ex.evalr.Eval(t)
}

func (ex *Exec) noteSite(in ssa.Instruction, fr *frame) {
	if in == nil {
		return
	}
	ex.siteCount[in]++
	if ex.cfg.Debug && fr != nil && ex.pos_ >= len(ex.prefix) {
		fmt.Printf("FORKSITE %s\n", ex.instrPos(fr, in))
	}
	if ex.siteCount[in] > ex.cfg.UnwindCap {
		where := "?"
		if fr != nil {
			where = ex.instrPos(fr, in)
		}
		panic(pathEnd{endInconclusive, fmt.Sprintf("unwind bound hit: %d symbolic decisions at %s", ex.cfg.UnwindCap, where)})
	}
}

func (ex *Exec) checkDeadline() {
	if !ex.cfg.Deadline.IsZero() && time.Now().After(ex.cfg.Deadline) {
		panic(pathEnd{endInconclusive, "time budget exhausted"})
	}
}

// branch decides a boolean term, forking when both sides are feasible.
func (ex *Exec) branch(cond *sym.Term, in ssa.Instruction, fr *frame) bool {
	if cond.IsConst() {
		return cond.Val == 1
	}
	if ex.inInit {
		ex.unsupported("symbolic branch during init")
	}
	c := ex.ctx
	if ex.pos_ < len(ex.prefix) {
		d := ex.prefix[ex.pos_]
		if d.Kind != DBranch {
			panic(fmt.Sprintf("replay divergence: expected branch decision, have %v at %d", d, ex.pos_))
		}
		ex.pos_++
		take := d.N == 1
		if !d.Forced {
			if take {
				ex.assertPC(cond)
			} else {
				ex.assertPC(c.BNot(cond))
			}
		}
		ex.trace = append(ex.trace, d)
		if !d.Forced {
			ex.noteSite(in, fr)
		}
		return take
	}
	if kv, ok := ex.knownVal(cond); ok {
		n := uint64(0)
		if kv {
			n = 1
		}
		ex.trace = append(ex.trace, Decision{Kind: DBranch, N: n, Forced: true})
		ex.pos_++
		return kv
	}
	ex.checkDeadline()
	vars := ex.ctx.Vars()
	if mv, ok := ex.modelVal(cond); ok {
		// the cached model witnesses the mv side; only the other side needs a query
		take := mv == 1
		other := cond
		if take {
			other = c.BNot(cond)
		}
		r, _ := ex.solver.Check(other, nil)
		if r == sym.Unknown {
			r = ex.checkFresh(other)
		}
		if r == sym.Unknown {
			ex.inconclusive("solver unknown on branch feasibility: " + ex.solver.LastErr)
		}
		n := uint64(0)
		if take {
			n = 1
		}
		if r == sym.Unsat {
			ex.trace = append(ex.trace, Decision{Kind: DBranch, N: n, Forced: true})
			ex.pos_++
			ex.learn(cond, take)
			return take
		}
		ex.noteSite(in, fr)
		alt := append(append([]Decision(nil), ex.trace...), Decision{Kind: DBranch, N: 1 - n})
		ex.pending = append(ex.pending, alt)
		ex.trace = append(ex.trace, Decision{Kind: DBranch, N: n})
		ex.pos_++
		if take {
			ex.assertPC(cond)
		} else {
			ex.assertPC(c.BNot(cond))
		}
		return take
	}
	r1, m1 := ex.solver.Check(cond, vars)
	if r1 == sym.Unknown {
		ex.inconclusive("solver unknown on branch feasibility: " + ex.solver.LastErr)
	}
	if r1 == sym.Unsat {
		ex.trace = append(ex.trace, Decision{Kind: DBranch, N: 0, Forced: true})
		ex.pos_++
		ex.learn(cond, false)
		return false
	}
	r2, _ := ex.solver.Check(c.BNot(cond), nil)
	if r2 == sym.Unknown {
		r2 = ex.checkFresh(c.BNot(cond))
	}
	if r2 == sym.Unknown {
		ex.inconclusive("solver unknown on branch feasibility: " + ex.solver.LastErr)
	}
	if r2 == sym.Unsat {
		ex.trace = append(ex.trace, Decision{Kind: DBranch, N: 1, Forced: true})
		ex.pos_++
		ex.learn(cond, true)
		ex.setModel(m1)
		return true
	}
	ex.noteSite(in, fr)
	alt := append(append([]Decision(nil), ex.trace...), Decision{Kind: DBranch, N: 0})
	ex.pending = append(ex.pending, alt)
	ex.trace = append(ex.trace, Decision{Kind: DBranch, N: 1})
	ex.pos_++
	ex.setModel(m1)
	ex.assertPC(cond)
	return true
}

// concretize picks a concrete value for t, forking over its feasible values.
func (ex *Exec) concretize(t *sym.Term, in ssa.Instruction, fr *frame) uint64 {
	if t.IsConst() {
		return t.Val
	}
	if ex.inInit {
		ex.unsupported("symbolic concretisation during init")
	}
	c := ex.ctx
	var excl []uint64
	if ex.pos_ < len(ex.prefix) {
		d := ex.prefix[ex.pos_]
		switch d.Kind {
		case DConc:
			ex.pos_++
			if !d.Forced {
				ex.assertPC(c.Cmp(sym.OEq, t, sym.Const(t.W, d.N)))
			}
			ex.trace = append(ex.trace, d)
			return d.N
		case DConcExcl:
			excl = d.Excl
		default:
			panic(fmt.Sprintf("replay divergence: expected concretisation, have %v", d))
		}
	}
	ex.checkDeadline()
	for _, v := range excl {
		ex.assertPC(c.BNot(c.Cmp(sym.OEq, t, sym.Const(t.W, v))))
	}
	var v uint64
	if mv, ok := ex.modelVal(t); ok && len(excl) == 0 {
		v = mv
	} else {
		r, m := ex.solver.Check(nil, append([]*sym.Term{t}, ex.ctx.Vars()...))
		if r == sym.Unknown {
			ex.inconclusive("solver unknown on concretisation: " + ex.solver.LastErr)
		}
		if r == sym.Unsat {
			panic(pathEnd{endInfeasible, "no further value"})
		}
		v = m[t]
		delete(m, t)
		if t.Op == sym.OVar {
			m[t] = v
		}
		ex.setModel(m)
	}
	if len(excl)+1 > ex.cfg.ConcCap {
		where := "?"
		if fr != nil && in != nil {
			where = ex.instrPos(fr, in)
		}
		panic(pathEnd{endInconclusive, fmt.Sprintf("concretisation bound exceeded: more than %d values for a symbolic length/index at %s", ex.cfg.ConcCap, where)})
	}
	ex.noteSite(in, fr)
	nex := append(append([]uint64(nil), excl...), v)
	alt := append(append([]Decision(nil), ex.trace...), Decision{Kind: DConcExcl, Excl: nex})
	ex.pending = append(ex.pending, alt)
	ex.trace = append(ex.trace, Decision{Kind: DConc, N: v})
	ex.pos_++
	ex.assertPC(c.Cmp(sym.OEq, t, sym.Const(t.W, v)))
	return v
}

// choose forks n ways without consulting the solver.
func (ex *Exec) choose(n int, in ssa.Instruction, fr *frame) int {
	if n <= 1 {
		return 0
	}
	if ex.pos_ < len(ex.prefix) {
		d := ex.prefix[ex.pos_]
		ex.pos_++
		ex.trace = append(ex.trace, d)
		return int(d.N)
	}
	for k := 1; k < n; k++ {
		alt := append(append([]Decision(nil), ex.trace...), Decision{Kind: DConc, N: uint64(k), Forced: true})
		ex.pending = append(ex.pending, alt)
	}
	ex.trace = append(ex.trace, Decision{Kind: DConc, N: 0, Forced: true})
	ex.pos_++
	return 0
}

// ---- diamond merging --------------------------------------------------------------

func pureInstr(in ssa.Instruction) bool {
	switch in := in.(type) {
	case *ssa.BinOp:
		switch in.Op.String() {
		case "/", "%", "<<", ">>":
			return false
		}
		if _, ok := in.X.Type().Underlying().(*types.Basic); !ok {
			return false
		}
		return !isString(in.X.Type())
	case *ssa.UnOp:
		switch in.Op.String() {
		case "!", "-", "^":
			return true
		}
		return false
	case *ssa.Convert:
		bs, ok1 := in.X.Type().Underlying().(*types.Basic)
		bd, ok2 := in.Type().Underlying().(*types.Basic)
		return ok1 && ok2 && bs.Info()&types.IsNumeric != 0 && bd.Info()&types.IsNumeric != 0
	case *ssa.ChangeType:
		_, ok := in.Type().Underlying().(*types.Basic)
		return ok
	case *ssa.DebugRef:
		return true
	}
	return false
}

func pureArm(b, from *ssa.BasicBlock) (*ssa.BasicBlock, bool) {
	if len(b.Preds) != 1 || b.Preds[0] != from {
		return nil, false
	}
	n := len(b.Instrs)
	if n > 12 {
		return nil, false
	}
	j, ok := b.Instrs[n-1].(*ssa.Jump)
	if !ok {
		return nil, false
	}
	_ = j
	for _, in := range b.Instrs[:n-1] {
		if !pureInstr(in) {
			return nil, false
		}
	}
	return b.Succs[0], true
}

func predIndex(b, pred *ssa.BasicBlock) int {
	for i, p := range b.Preds {
		if p == pred {
			return i
		}
	}
	return -1
}

// tryMergeDiamond turns `if c {pure} else {pure}` joins into ite φ-values.
func (ex *Exec) tryMergeDiamond(fr *frame, instr *ssa.If, cond *sym.Term) bool {
	if cond.IsConst() || ex.inInit {
		return false
	}
	blk := fr.block
	t, f := blk.Succs[0], blk.Succs[1]
	var join, predT, predF *ssa.BasicBlock
	var armT, armF *ssa.BasicBlock
	jt, okT := pureArm(t, blk)
	jf, okF := pureArm(f, blk)
	switch {
	case okT && okF && jt == jf:
		join, predT, predF, armT, armF = jt, t, f, t, f
	case okT && jt == f:
		join, predT, predF, armT = f, t, blk, t
	case okF && jf == t:
		join, predT, predF, armF = t, blk, f, f
	default:
		return false
	}
	if fr.cutState != nil && join == fr.cutState.header {
		return false
	}
	// φ-nodes of the join must be scalars
	var phis []*ssa.Phi
	for _, in := range join.Instrs {
		p, ok := in.(*ssa.Phi)
		if !ok {
			break
		}
		b, ok := p.Type().Underlying().(*types.Basic)
		if !ok || b.Info()&types.IsString != 0 || b.Kind() == types.UnsafePointer {
			return false
		}
		phis = append(phis, p)
	}
	if len(phis) == 0 {
		return false
	}
	iT, iF := predIndex(join, predT), predIndex(join, predF)
	if iT < 0 || iF < 0 || iT == iF {
		return false
	}
	for _, arm := range []*ssa.BasicBlock{armT, armF} {
		if arm == nil {
			continue
		}
		for _, in := range arm.Instrs[:len(arm.Instrs)-1] {
			ex.visit1(fr, in)
		}
	}
	vals := make([]Value, len(phis))
	for i, p := range phis {
		a, ok1 := fr.get(p.Edges[iT]).(*sym.Term)
		b, ok2 := fr.get(p.Edges[iF]).(*sym.Term)
		if !ok1 || !ok2 {
			ex.unsupported("diamond merge of non-scalar φ")
		}
		vals[i] = ex.ctx.Ite(cond, a, b)
	}
	for i, p := range phis {
		fr.set(p, vals[i])
	}
	// enter join with φs already set: use a pseudo predecessor
	fr.prevBlock = predT
	fr.block = join
	fr.phisDone = true
	return true
}

// ---- loop cuts -----------------------------------------------------------------------

type cutState struct {
	header   *ssa.BasicBlock
	hook     *ssa.Function
	arrivals int
}

func loopHeader(fn *ssa.Function) *ssa.BasicBlock {
	for _, b := range fn.Blocks {
		if len(b.Instrs) == 0 {
			continue
		}
		if _, ok := b.Instrs[0].(*ssa.Phi); !ok {
			continue
		}
		for _, p := range b.Preds {
			if p.Index >= b.Index {
				return b
			}
		}
	}
	return nil
}

// atCutHeader implements the loop cut: on first arrival the hook supplies the
// φ-values (an arbitrary loop-head state constrained by the invariant), on
// arrival through the back edge the hook checks the invariant and the path ends.
func (ex *Exec) atCutHeader(fr *frame, pi int, phis []ssa.Instruction) {
	cs := fr.cutState
	in := make([]Value, len(phis))
	names := make([]Value, len(phis))
	for i, p := range phis {
		ph := p.(*ssa.Phi)
		in[i] = Iface{T: ph.Type(), V: fr.get(ph.Edges[pi])}
		names[i] = Str{S: ph.Comment}
	}
	phase := uint64(0)
	if cs.arrivals > 0 {
		phase = 1
	}
	cs.arrivals++
	out := ex.callSSA(fr, cs.hook, []Value{sym.Const(64, phase), names, in}, nil, phis[0])
	if phase == 1 {
		panic(pathEnd{endDone, "loop cut: back edge checked"})
	}
	vals, ok := out.([]Value)
	if !ok || len(vals) != len(phis) {
		ex.inconclusive("loop-cut hook must return one value per φ-node")
	}
	for i, p := range phis {
		iv, ok := vals[i].(Iface)
		if !ok {
			ex.inconclusive("loop-cut hook returned a non-interface element")
		}
		fr.set(p.(*ssa.Phi), iv.V)
	}
}

// ---- running one path --------------------------------------------------------------

func (ex *Exec) resetPath() {
	for i := len(ex.undoFns) - 1; i >= 0; i-- {
		ex.undoFns[i]()
	}
	ex.undoFns = ex.undoFns[:0]
	for i := len(ex.trail) - 1; i >= 0; i-- {
		*ex.trail[i].p = ex.trail[i].old
	}
	ex.trail = ex.trail[:0]
	ex.ctx.Reset()
	ex.solver.Reset()
	ex.trace = nil
	ex.pos_ = 0
	ex.pending = nil
	ex.inputs = nil
	ex.nameCount = map[string]int{}
	ex.steps, ex.depth = 0, 0
	ex.siteCount = map[ssa.Instruction]int{}
	ex.allocLimit = ex.cfg.AllocLimit
	ex.allocLimitSet = false
	ex.wg = map[*Value]int64{}
	ex.nTime = 0
	ex.assertsHit = map[string]int{}
	ex.reached = map[string]int{}
	ex.assumes = 0
	ex.pcTerms = nil
	ex.modelOnly = false
	ex.model, ex.evalr = nil, nil
	ex.known = map[int32]bool{}
	ex.pinned, ex.pinEval = nil, nil
}

// RunPath executes job along prefix and returns the outcome plus the
// alternative prefixes discovered.
func (ex *Exec) RunPath(job *Job, prefix []Decision) (res PathResult, alts [][]Decision) {
	ex.EnsureInit(job.Harness.Pkg)
	ex.resetPath()
	ex.ctx.FPExact = job.Meta["fpexact"] == "1"
	ex.job = job
	ex.prefix = prefix
	if job.Meta["sched"] == "1" {
		ex.schedReset()
	}
	defer func() {
		r := recover()
		// stop every other goroutine of the path before touching shared state
		func() {
			defer func() { recover() }()
			ex.schedKillAll()
		}()
		alts = ex.pending
		if job.Single {
			alts = nil
		}
		res.Steps = ex.steps
		res.Decisions = len(ex.trace)
		res.Sched = ex.schedStats
		ex.schedStats = [3]int{}
		if r != nil {
			switch r := r.(type) {
			case pathEnd:
				res.Kind, res.Why = r.kind, r.why
				if r.kind == endViolation {
					res.Violation = ex.violation("fault", r.why, "")
				}
			case violationEnd:
				res.Kind = endViolation
				res.Why = r.v.Msg
				res.Violation = r.v
			case *targetPanic:
				res.Kind = endViolation
				res.Why = r.msg
				res.Violation = ex.violation("panic", r.msg, r.site)
			default:
				res.Kind = endInconclusive
				res.Why = fmt.Sprintf("engine error: %v", r)
				if ex.cfg.Debug {
					panic(r)
				}
			}
		}
	}()
	args := make([]Value, len(job.Args))
	for i, a := range job.Args {
		args[i] = sym.Const(width(job.Harness.Params[i].Type()), a)
	}
	ex.callSSA(nil, job.Harness, args, nil, nil)
	res.Kind = endDone
	if ex.wantSample != nil && ex.wantSample(job) && ex.cfg.Fixed == nil {
		res.Sample = ex.sampleInputs()
	}
	return
}

// sampleInputs returns a model of the inputs satisfying the completed path's
// condition (nil if the solver gives none).
func (ex *Exec) sampleInputs() map[string]string {
	var want []*sym.Term
	for _, in := range ex.inputs {
		want = append(want, in.Term)
	}
	out := map[string]string{}
	if len(want) == 0 {
		return out
	}
	r, m := ex.solver.Check(nil, want)
	if r != sym.Sat {
		return nil
	}
	for _, in := range ex.inputs {
		out[in.Name] = fmt.Sprintf("%d", m[in.Term])
	}
	return out
}

func (ex *Exec) violation(kind, msg, site string) *Violation {
	v := &Violation{Harness: ex.job.Name, Case: ex.job.Case, Kind: kind, Msg: msg, Site: site, Inputs: map[string]string{}, ModelOnly: ex.modelOnly}
	var want []*sym.Term
	for _, in := range ex.inputs {
		want = append(want, in.Term)
	}
	if len(want) > 0 {
		r, m := ex.solver.Check(nil, want)
		if r != sym.Sat && ex.checkFresh(nil) == sym.Sat {
			// ask the fresh session (full timeout) for the model
			r, m = ex.solver2.Check(nil, want)
		}
		if r == sym.Sat {
			for _, in := range ex.inputs {
				v.Inputs[in.Name] = fmt.Sprintf("%d", m[in.Term])
			}
			// a few more models of the same path (uninterpreted float arithmetic
			// can make the first one spurious natively): block each one found
			for extra := 0; extra < 3 && kind == "assert"; extra++ {
				block := sym.False
				for _, in := range ex.inputs {
					block = ex.ctx.BOr(block, ex.ctx.BNot(ex.ctx.Cmp(sym.OEq, in.Term, sym.Const(in.Term.W, m[in.Term]))))
				}
				ex.pcTerms = append(ex.pcTerms, block)
				ex.solver.Assert(block)
				r2, m2 := ex.solver.Check(nil, want)
				if r2 != sym.Sat {
					break
				}
				alt := map[string]string{}
				for _, in := range ex.inputs {
					alt[in.Name] = fmt.Sprintf("%d", m2[in.Term])
				}
				v.AltInputs = append(v.AltInputs, alt)
				m = m2
			}
		} else {
			v.Msg += " (no model: " + r.String() + ")"
		}
	}
	var sb strings.Builder
	for _, d := range ex.trace {
		sb.WriteString(d.String())
		sb.WriteByte(' ')
	}
	v.Decisions = sb.String()
	v.Key = fmt.Sprintf("%s/%s@%s", ex.job.Name, kind, site)
	return v
}

// ---- the worker pool ------------------------------------------------------------------

type JobResult struct {
	Job          *Job
	Paths        int
	Done         int
	Infeasible   int
	Violations   []*Violation
	Inconclusive []string
	Steps        int64
	AssertsHit   map[string]int
	Reached      map[string]int
	Wall         time.Duration
	MaxDecisions int
	SchedMax     [3]int // tier 2: most goroutines, switches, departures from the default schedule on one path
	Switches     int64  // tier 2: goroutine switches over all paths
	Samples      []map[string]string // input models of completed (passing) paths, for the native differential run
}

type Stats struct {
	Sat, Unsat, Unknown, Errors int
	SolverTime                  time.Duration
	Funcs                       map[string]string
	Intrinsics                  map[string]int
	InitProblems                []string
}

type workItem struct {
	job    *Job
	jr     *JobResult
	prefix []Decision
}

// Explore runs all jobs to completion with nworkers workers.
func Explore(prog *ssa.Program, cfg *Config, jobs []*Job, nworkers int) ([]*JobResult, *Stats, error) {
	var mu sync.Mutex
	cond := sync.NewCond(&mu)
	var stack []workItem
	results := make([]*JobResult, len(jobs))
	for i := len(jobs) - 1; i >= 0; i-- {
		results[i] = &JobResult{Job: jobs[i], AssertsHit: map[string]int{}, Reached: map[string]int{}}
		stack = append(stack, workItem{jobs[i], results[i], jobs[i].Prefix})
	}
	active := 0
	stats := &Stats{Funcs: map[string]string{}, Intrinsics: map[string]int{}}
	var wgrp sync.WaitGroup
	var firstErr error
	start := time.Now()
	for w := 0; w < nworkers; w++ {
		wgrp.Add(1)
		go func(w int) {
			defer wgrp.Done()
			ex, err := NewExec(prog, cfg)
			if err != nil {
				mu.Lock()
				firstErr = err
				mu.Unlock()
				return
			}
			defer ex.Close()
			ex.wantSample = func(j *Job) bool {
				mu.Lock()
				defer mu.Unlock()
				for _, r := range results {
					if r.Job == j {
						return len(r.Samples) < cfg.SamplesPerJob
					}
				}
				return false
			}
			for {
				mu.Lock()
				for len(stack) == 0 && active > 0 {
					cond.Wait()
				}
				if len(stack) == 0 {
					mu.Unlock()
					cond.Broadcast()
					break
				}
				it := stack[len(stack)-1]
				stack = stack[:len(stack)-1]
				active++
				mu.Unlock()

				res, alts := ex.RunPath(it.job, it.prefix)

				mu.Lock()
				jr := it.jr
				jr.Paths++
				jr.Steps += int64(res.Steps)
				if res.Decisions > jr.MaxDecisions {
					jr.MaxDecisions = res.Decisions
				}
				for k := 0; k < 3; k++ {
					if res.Sched[k] > jr.SchedMax[k] {
						jr.SchedMax[k] = res.Sched[k]
					}
				}
				jr.Switches += int64(res.Sched[1])
				switch res.Kind {
				case endDone:
					jr.Done++
					if res.Sample != nil && len(jr.Samples) < cfg.SamplesPerJob {
						jr.Samples = append(jr.Samples, res.Sample)
					}
				case endInfeasible:
					jr.Infeasible++
				case endViolation:
					jr.Violations = append(jr.Violations, res.Violation)
				case endInconclusive:
					if len(jr.Inconclusive) < 20 {
						jr.Inconclusive = append(jr.Inconclusive, res.Why)
					}
				}
				for k, v := range ex.assertsHit {
					jr.AssertsHit[k] += v
				}
				for k, v := range ex.reached {
					jr.Reached[k] += v
				}
				jr.Wall = time.Since(start)
				if jr.Paths+len(alts) > cfg.MaxPaths && len(alts) > 0 {
					if len(jr.Inconclusive) < 20 {
						jr.Inconclusive = append(jr.Inconclusive, fmt.Sprintf("path bound %d exceeded", cfg.MaxPaths))
					}
					alts = nil
				}
				if len(jr.Violations) >= 5 {
					alts = nil // enough counterexamples for this job
				}
				for _, a := range alts {
					stack = append(stack, workItem{it.job, jr, a})
				}
				active--
				mu.Unlock()
				cond.Broadcast()
			}
			mu.Lock()
			stats.Sat += ex.solver.NSat
			stats.Unsat += ex.solver.NUnsat
			stats.Unknown += ex.solver.NUnknown
			stats.Errors += ex.solver.NErr
			stats.SolverTime += ex.solver.Time
			for k, v := range ex.funcs {
				stats.Funcs[k] = v
			}
			for k, v := range ex.intrins {
				stats.Intrinsics[k] += v
			}
			if w == 0 {
				stats.InitProblems = ex.initProblems
			}
			mu.Unlock()
		}(w)
	}
	wgrp.Wait()
	return results, stats, firstErr
}

func SortedKeys(m map[string]string) []string {
	r := make([]string, 0, len(m))
	for k := range m {
		r = append(r, k)
	}
	sort.Strings(r)
	return r
}

var _ = os.Stderr
