package exec

import (
	"fmt"
	"go/types"
	"strings"

	"golang.org/x/tools/go/ssa"

	"verif/symgo/sym"
)

func newMap(keyT types.Type) *Map {
	return &Map{KeyT: keyT, idx: map[string]int{}}
}

// canonKey returns a canonical string for a fully concrete key, ok=false if the
// key has symbolic parts.
func canonKey(v Value) (string, bool) {
	var sb strings.Builder
	if !writeCanon(&sb, v) {
		return "", false
	}
	return sb.String(), true
}

func writeCanon(sb *strings.Builder, v Value) bool {
	switch v := v.(type) {
	case *sym.Term:
		if !v.IsConst() {
			return false
		}
		fmt.Fprintf(sb, "i%d:%x;", v.W, v.Val)
	case Str:
		if !v.Concrete() {
			return false
		}
		fmt.Fprintf(sb, "s%d:%s;", len(v.S), v.S)
	case *Value:
		fmt.Fprintf(sb, "p%p;", v)
	case *Map:
		fmt.Fprintf(sb, "m%p;", v)
	case *Chan:
		fmt.Fprintf(sb, "c%p;", v)
	case Iface:
		if v.T == nil {
			sb.WriteString("nil;")
			return true
		}
		sb.WriteString("I" + v.T.String() + ":")
		return writeCanon(sb, v.V)
	case Struct:
		sb.WriteString("{")
		for _, f := range v {
			if !writeCanon(sb, f) {
				return false
			}
		}
		sb.WriteString("}")
	case Array:
		sb.WriteString("[")
		for _, f := range v {
			if !writeCanon(sb, f) {
				return false
			}
		}
		sb.WriteString("]")
	case *ssa.Function:
		fmt.Fprintf(sb, "f%p;", v)
	default:
		panic(fmt.Sprintf("map key of type %T", v))
	}
	return true
}

// mapFind locates the entry for key k, forking on equality with entries whose
// keys (or k itself) are symbolic. Returns nil if absent on this path.
func (ex *Exec) mapFind(fr *frame, in ssa.Instruction, m *Map, k Value) *mapEntry {
	if m == nil {
		return nil
	}
	ck, conc := canonKey(k)
	if conc {
		if i, ok := m.idx[ck]; ok {
			return m.ents[i]
		}
		for _, i := range m.symKeys {
			e := m.ents[i]
			if e.deleted {
				continue
			}
			if ex.branch(ex.equals(m.KeyT, e.K, k), in, fr) {
				return e
			}
		}
		return nil
	}
	for _, e := range m.ents {
		if e.deleted {
			continue
		}
		if ex.branch(ex.equals(m.KeyT, e.K, k), in, fr) {
			return e
		}
	}
	return nil
}

func (ex *Exec) mapSet(fr *frame, in ssa.Instruction, m *Map, k, v Value) {
	if e := ex.mapFind(fr, in, m, k); e != nil {
		old := e.V
		e.V = v
		ex.undoFn(func() { e.V = old })
		return
	}
	e := &mapEntry{K: copyVal(k), V: v}
	m.ents = append(m.ents, e)
	i := len(m.ents) - 1
	ck, conc := canonKey(k)
	if conc {
		m.idx[ck] = i
	} else {
		m.symKeys = append(m.symKeys, i)
	}
	m.n++
	ex.undoFn(func() {
		m.ents = m.ents[:i]
		if conc {
			delete(m.idx, ck)
		} else {
			m.symKeys = m.symKeys[:len(m.symKeys)-1]
		}
		m.n--
	})
}

func (ex *Exec) mapDelete(fr *frame, in ssa.Instruction, m *Map, k Value) {
	e := ex.mapFind(fr, in, m, k)
	if e == nil {
		return
	}
	e.deleted = true
	m.n--
	ck, conc := canonKey(e.K)
	var oi int
	if conc {
		oi = m.idx[ck]
		delete(m.idx, ck)
	}
	ex.undoFn(func() {
		e.deleted = false
		m.n++
		if conc {
			m.idx[ck] = oi
		}
	})
}

func (ex *Exec) lookup(fr *frame, instr *ssa.Lookup) Value {
	x := fr.get(instr.X)
	if s, ok := x.(Str); ok { // string indexing
		idx := to64(ex, fr.get(instr.Index).(*sym.Term), isSigned(instr.Index.Type()))
		n := s.Len()
		if idx.IsConst() {
			if idx.Val >= uint64(n) {
				ex.runtimePanic(fr, instr, fmt.Sprintf("index out of range [%d] with length %d", int64(idx.Val), n))
			}
			return s.Byte(int(idx.Val))
		}
		ex.boundsCheck(fr, instr, idx, n, "index")
		cells := make([]Value, n)
		for i := 0; i < n; i++ {
			cells[i] = s.Byte(i)
		}
		return ex.selectCells(fr, instr, cells, idx)
	}
	m, ok := x.(*Map)
	if !ok {
		ex.badCell(x, "Lookup")
	}
	e := ex.mapFind(fr, instr, m, fr.get(instr.Index))
	var v Value
	found := sym.False
	if e != nil {
		v = copyVal(e.V)
		found = sym.True
	} else {
		v = zero(instr.X.Type().Underlying().(*types.Map).Elem())
	}
	if instr.CommaOk {
		return Tuple{v, found}
	}
	return v
}

// permuteMapOrder forks over iteration orders for small maps (Go leaves the
// order unspecified); larger maps iterate in insertion order.
func (ex *Exec) permuteMapOrder(fr *frame, in ssa.Instruction, ents []*mapEntry) []*mapEntry {
	n := len(ents)
	if n < 2 || n > ex.cfg.MapOrderMax {
		return ents
	}
	// choose a permutation index by successive choices
	out := make([]*mapEntry, 0, n)
	rest := append([]*mapEntry(nil), ents...)
	for len(rest) > 1 {
		k := ex.choose(len(rest), in, fr)
		out = append(out, rest[k])
		rest = append(rest[:k], rest[k+1:]...)
	}
	return append(out, rest[0])
}

// ---- channels (tier 1: never block) -------------------------------------------

func (ex *Exec) chanSend(fr *frame, in ssa.Instruction, chv Value, v Value) {
	ch, ok := chv.(*Chan)
	if !ok {
		ex.badCell(chv, "Send")
	}
	if ex.schedOn() && (ch == nil || ch.Handler == nil) {
		ex.schedSend(fr, in, ch, v)
		return
	}
	if ch == nil {
		panic(pathEnd{endViolation, "blocked forever: send on nil channel at " + ex.instrPos(fr, in)})
	}
	if ch.Closed {
		panic(&targetPanic{v: Str{S: "send on closed channel"}, runtime: true, msg: "send on closed channel", site: ex.instrPos(fr, in)})
	}
	if ch.Handler != nil {
		ex.call(fr, ch.Handler, []Value{copyVal(v)}, in)
		return
	}
	if len(ch.Buf) >= ch.Cap+ex.cfg.ChanSlack {
		panic(pathEnd{endInconclusive, "would block: send on full/unbuffered channel at " + ex.instrPos(fr, in) + " (tier 1 has one logical thread)"})
	}
	old := ch.Buf
	ch.Buf = append(append([]Value(nil), ch.Buf...), copyVal(v))
	ex.undoFn(func() { ch.Buf = old })
}

func (ex *Exec) chanRecv(fr *frame, in ssa.Instruction, chv Value, commaOk bool) Value {
	ch, ok := chv.(*Chan)
	if !ok {
		ex.badCell(chv, "Recv")
	}
	if ex.schedOn() {
		where := "receive at " + ex.instrPos(fr, in)
		ex.preemptPoint(where)
		if ch == nil {
			ex.block(func() bool { return false }, where+" (nil channel)")
		}
		ch.RecvWaiters++
		ex.block(func() bool { return len(ch.Buf) > 0 || ch.Closed }, where)
		ch.RecvWaiters--
	}
	if ch == nil {
		panic(pathEnd{endViolation, "blocked forever: receive from nil channel at " + ex.instrPos(fr, in)})
	}
	if len(ch.Buf) > 0 {
		ch.Recvd++
		old := ch.Buf
		v := ch.Buf[0]
		ch.Buf = ch.Buf[1:]
		ex.undoFn(func() { ch.Buf = old })
		if commaOk {
			return Tuple{v, sym.True}
		}
		return v
	}
	if ch.Closed {
		z := zero(ch.ElemT)
		if commaOk {
			return Tuple{z, sym.False}
		}
		return z
	}
	panic(pathEnd{endInconclusive, "would block: receive on empty channel at " + ex.instrPos(fr, in) + " (tier 1 has one logical thread)"})
}

func (ex *Exec) chanClose(fr *frame, in ssa.Instruction, chv Value) {
	ch := chv.(*Chan)
	ex.preemptPoint("close at " + ex.instrPos(fr, in))
	if ch == nil {
		panic(&targetPanic{v: Str{S: "close of nil channel"}, runtime: true, msg: "close of nil channel", site: ex.instrPos(fr, in)})
	}
	if ch.Closed {
		panic(&targetPanic{v: Str{S: "close of closed channel"}, runtime: true, msg: "close of closed channel", site: ex.instrPos(fr, in)})
	}
	ch.Closed = true
	ex.undoFn(func() { ch.Closed = false })
}

// schedSend is the blocking send of tier 2.
func (ex *Exec) schedSend(fr *frame, in ssa.Instruction, ch *Chan, v Value) {
	where := "send at " + ex.instrPos(fr, in)
	ex.preemptPoint(where)
	if ch == nil {
		ex.block(func() bool { return false }, where+" (nil channel)")
	}
	closedPanic := func() {
		if ch.Closed {
			panic(&targetPanic{v: Str{S: "send on closed channel"}, runtime: true, msg: "send on closed channel", site: ex.instrPos(fr, in)})
		}
	}
	closedPanic()
	if ch.Cap > 0 {
		ex.block(func() bool { return ch.Closed || len(ch.Buf) < ch.Cap }, where)
		closedPanic()
		ch.Buf = append(append([]Value(nil), ch.Buf...), copyVal(v))
		ch.Sent++
		return
	}
	// unbuffered: hand the value over and wait until a receiver has taken it
	ex.block(func() bool { return ch.Closed || len(ch.Buf) == 0 }, where)
	closedPanic()
	ch.Buf = append(append([]Value(nil), ch.Buf...), copyVal(v))
	ticket := ch.Sent
	ch.Sent++
	ex.block(func() bool { return ch.Recvd > ticket }, where+" (waiting for a receiver)")
}

// schedSelect is the select of tier 2.
func (ex *Exec) schedSelect(fr *frame, instr *ssa.Select) (int, Value, *sym.Term) {
	chans := make([]*Chan, len(instr.States))
	for i, st := range instr.States {
		chans[i], _ = fr.get(st.Chan).(*Chan)
	}
	ex.preemptPoint("select at " + ex.instrPos(fr, instr))
	ready := func() []int {
		var r []int
		for i, st := range instr.States {
			ch := chans[i]
			if ch == nil {
				continue
			}
			if st.Dir == types.RecvOnly {
				if len(ch.Buf) > 0 || ch.Closed {
					r = append(r, i)
				}
			} else if ch.Closed || (ch.Cap > 0 && len(ch.Buf) < ch.Cap) || (ch.Cap == 0 && len(ch.Buf) == 0 && ch.RecvWaiters > 0) {
				r = append(r, i)
			}
		}
		return r
	}
	rs := ready()
	if len(rs) == 0 {
		if !instr.Blocking {
			return -1, nil, sym.False
		}
		for i, st := range instr.States {
			if st.Dir == types.RecvOnly && chans[i] != nil {
				chans[i].RecvWaiters++
			}
		}
		ex.block(func() bool { return len(ready()) > 0 }, "select at "+ex.instrPos(fr, instr))
		for i, st := range instr.States {
			if st.Dir == types.RecvOnly && chans[i] != nil {
				chans[i].RecvWaiters--
			}
		}
		rs = ready()
	}
	k := 0
	if len(rs) > 1 && ex.sch.choices < ex.schedBudget() {
		k = ex.choose(len(rs), instr, fr)
		if k != 0 {
			ex.sch.choices++
		}
	}
	i := rs[k]
	ch := chans[i]
	if instr.States[i].Dir == types.RecvOnly {
		if len(ch.Buf) > 0 {
			v := ch.Buf[0]
			ch.Buf = ch.Buf[1:]
			ch.Recvd++
			return i, v, sym.True
		}
		return i, zero(ch.ElemT), sym.False
	}
	if ch.Closed {
		panic(&targetPanic{v: Str{S: "send on closed channel"}, runtime: true, msg: "send on closed channel", site: ex.instrPos(fr, instr)})
	}
	ch.Buf = append(append([]Value(nil), ch.Buf...), copyVal(fr.get(instr.States[i].Send)))
	ticket := ch.Sent
	ch.Sent++
	if ch.Cap > 0 {
		return i, nil, sym.False
	}
	// unbuffered: the send only happens if the parked receiver really takes the
	// value; if another case of this select becomes ready first (the receiver
	// chose a different case of its own select) the offer is withdrawn.
	otherReady := func() bool {
		for _, j := range ready() {
			if j != i {
				return true
			}
		}
		return false
	}
	ex.block(func() bool { return ch.Recvd > ticket || otherReady() }, "select-send at "+ex.instrPos(fr, instr)+" (waiting for the receiver)")
	if ch.Recvd > ticket {
		return i, nil, sym.False
	}
	ch.Buf = nil
	ch.Sent--
	return ex.schedSelect(fr, instr)
}

func (ex *Exec) selectStmt(fr *frame, instr *ssa.Select) Value {
	chosen := -1
	var recv Value
	recvOk := sym.False
	if ex.schedOn() {
		chosen, recv, recvOk = ex.schedSelect(fr, instr)
		r := Tuple{sym.Const(64, uint64(int64(chosen))), recvOk}
		for i, st := range instr.States {
			if st.Dir == types.RecvOnly {
				if i == chosen && recv != nil {
					r = append(r, recv)
				} else {
					r = append(r, zero(st.Chan.Type().Underlying().(*types.Chan).Elem()))
				}
			}
		}
		return r
	}
	for i, st := range instr.States {
		ch, _ := fr.get(st.Chan).(*Chan)
		if ch == nil {
			continue
		}
		if st.Dir == types.RecvOnly {
			if len(ch.Buf) > 0 || ch.Closed {
				t := ex.chanRecv(fr, instr, ch, true).(Tuple)
				recv, recvOk = t[0], t[1].(*sym.Term)
				chosen = i
				break
			}
		} else {
			if ch.Closed || ch.Handler != nil || len(ch.Buf) < ch.Cap+ex.cfg.ChanSlack {
				ex.chanSend(fr, instr, ch, fr.get(st.Send))
				chosen = i
				break
			}
		}
	}
	if chosen < 0 && instr.Blocking {
		panic(pathEnd{endInconclusive, "would block: select with no ready case at " + ex.instrPos(fr, instr)})
	}
	r := Tuple{sym.Const(64, uint64(int64(chosen))), recvOk}
	for i, st := range instr.States {
		if st.Dir == types.RecvOnly {
			if i == chosen && recv != nil {
				r = append(r, recv)
			} else {
				r = append(r, zero(st.Chan.Type().Underlying().(*types.Chan).Elem()))
			}
		}
	}
	return r
}

func (ex *Exec) goStmt(fr *frame, instr *ssa.Go) {
	if ex.schedOn() {
		ex.spawn(fr, instr)
		return
	}
	if ex.cfg.GoInline || ex.atomicDepth > 0 {
		// run the goroutine body to completion at the spawn point (a legal
		// schedule when the body does not block); recorded as an assumption.
		fn, args := ex.prepareCall(fr, &instr.Call, instr)
		ex.call(fr, fn, args, instr)
		return
	}
	ex.unsupported("go statement (tier 1 has one logical thread) at " + ex.instrPos(fr, instr))
}
