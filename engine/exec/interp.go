package exec

import (
	"fmt"
	"go/constant"
	"sync"
	"unsafe"
	"go/token"
	"go/types"
	"strings"

	"golang.org/x/tools/go/ssa"

	"verif/symgo/sym"
)

// ---- non-local exits ----------------------------------------------------------

// targetPanic is a Go-level panic of the program under analysis.
type targetPanic struct {
	v       Value
	runtime bool   // raised by the runtime (bounds, nil, div by zero, ...)
	msg     string // human-readable
	site    string
}

type endKind int

const (
	endDone endKind = iota
	endInfeasible
	endViolation
	endInconclusive
)

// pathEnd terminates the current path; it is never seen by the target program.
type pathEnd struct {
	kind endKind
	why  string
}

type deferred struct {
	fn    Value
	args  []Value
	instr *ssa.Defer
	tail  *deferred
}

type funcInfo struct {
	idx  map[unsafe.Pointer]int32
	n    int
	base int  // slot of register number 0 (after parameters and free variables)
	fast bool // register numbers verified to equal slot-base
}

// regNum reads the register number of a value-defining instruction: every such
// type of x/tools v0.29.0 go/ssa embeds `register` first, whose layout is
// {anInstruction{block *BasicBlock}; num int; ...}. Verified per function in info().
func regNum(v ssa.Value) int {
	return *(*int)(unsafe.Add(vkey(v), unsafe.Sizeof(uintptr(0))))
}

// vkey is the data pointer of an ssa.Value (all implementations are pointers),
// a much cheaper map key than the interface itself.
func vkey(v ssa.Value) unsafe.Pointer {
	return (*[2]unsafe.Pointer)(unsafe.Pointer(&v))[1]
}

type frame struct {
	ex               *Exec
	caller           *frame
	fn               *ssa.Function
	fi               *funcInfo
	block, prevBlock *ssa.BasicBlock
	env              []Value
	defers           *deferred
	result           Value
	panicking        bool
	panic            *targetPanic
	cutState         *cutState
	phisDone         bool
	depth            int
}

var globalFinfo sync.Map // *ssa.Function -> *funcInfo, shared by all workers

func (ex *Exec) info(fn *ssa.Function) *funcInfo {
	if fi, ok := ex.finfo[fn]; ok {
		return fi
	}
	if g, ok := globalFinfo.Load(fn); ok {
		ex.finfo[fn] = g.(*funcInfo)
		return g.(*funcInfo)
	}
	fi := &funcInfo{idx: map[unsafe.Pointer]int32{}}
	add := func(v ssa.Value) {
		fi.idx[vkey(v)] = int32(fi.n)
		fi.n++
	}
	for _, p := range fn.Params {
		add(p)
	}
	for _, fv := range fn.FreeVars {
		add(fv)
	}
	fi.base = fi.n
	fi.fast = true
	for _, b := range fn.Blocks {
		for _, in := range b.Instrs {
			if v, ok := in.(ssa.Value); ok {
				if regNum(v) != fi.n-fi.base {
					fi.fast = false
				}
				add(v)
			}
		}
	}
	if g, loaded := globalFinfo.LoadOrStore(fn, fi); loaded {
		fi = g.(*funcInfo)
	}
	ex.finfo[fn] = fi
	return fi
}

var globalNames sync.Map // *ssa.Function -> string

func (ex *Exec) fname(fn *ssa.Function) string {
	if n, ok := ex.fnames[fn]; ok {
		return n
	}
	var n string
	if g, ok := globalNames.Load(fn); ok {
		n = g.(string)
	} else {
		n = fn.String()
		globalNames.Store(fn, n)
	}
	ex.fnames[fn] = n
	return n
}

func (ex *Exec) pos(p token.Pos) string {
	if p == token.NoPos {
		return "?"
	}
	ps := ex.prog.Fset.Position(p)
	f := ps.Filename
	if i := strings.Index(f, "/repo/"); i >= 0 {
		f = f[i+6:]
	} else if i := strings.Index(f, "/pkg/mod/"); i >= 0 {
		f = f[i+9:]
	} else if i := strings.Index(f, "/src/"); i >= 0 {
		f = f[i+5:]
	}
	return fmt.Sprintf("%s:%d", f, ps.Line)
}

func (ex *Exec) instrPos(fr *frame, in ssa.Instruction) string {
	p := in.Pos()
	if p == token.NoPos {
		// find nearest instruction with a position in the block
		for _, x := range in.Block().Instrs {
			if x.Pos() != token.NoPos {
				p = x.Pos()
				if x == in {
					break
				}
			}
		}
	}
	return fr.fn.String() + "@" + ex.pos(p)
}

func (fr *frame) get(v ssa.Value) Value {
	switch v := v.(type) {
	case *ssa.Const:
		return fr.ex.constValue(v)
	case *ssa.Global:
		return fr.ex.global(v)
	case *ssa.Function:
		return v
	case *ssa.Builtin:
		return v
	}
	i := fr.slot(v)
	r := fr.env[i]
	if b, ok := r.(Bad); ok && !fr.ex.inInit {
		fr.ex.unsupported("use of a value poisoned during package initialisation: " + b.Why)
	}
	return r
}

func (fr *frame) set(v ssa.Value, x Value) { fr.env[fr.slot(v)] = x }

func (fr *frame) slot(v ssa.Value) int {
	if fr.fi.fast {
		switch v.(type) {
		case *ssa.Parameter, *ssa.FreeVar:
		default:
			return fr.fi.base + regNum(v)
		}
	}
	i, ok := fr.fi.idx[vkey(v)]
	if !ok {
		panic(fmt.Sprintf("no slot for %T %s in %s", v, v.Name(), fr.fn))
	}
	return int(i)
}

func (ex *Exec) global(g *ssa.Global) *Value {
	if p, ok := ex.globals[g]; ok {
		return p
	}
	p := new(Value)
	*p = zero(g.Type().(*types.Pointer).Elem())
	if g.Pkg != nil && !ex.initDone[g.Pkg] && !ex.inInit {
		path := g.Pkg.Pkg.Path()
		if !zeroGlobalsOK(path) {
			*p = Bad{"global " + g.String() + " of package whose init was not run"}
		}
	}
	ex.globals[g] = p
	return p
}

func zeroGlobalsOK(path string) bool {
	return path == "internal/cpu" || path == "internal/godebug" || strings.HasPrefix(path, "internal/")
}

var globalConsts sync.Map // *ssa.Const -> Value (immutable scalars and strings only)

func (ex *Exec) constValue(c *ssa.Const) Value {
	if v, ok := ex.consts[c]; ok {
		return v
	}
	if g, ok := globalConsts.Load(c); ok {
		ex.consts[c] = g
		return g
	}
	v := ex.constValue1(c)
	switch v.(type) {
	case *sym.Term, Str:
		globalConsts.Store(c, v)
		ex.consts[c] = v
	}
	return v
}

func (ex *Exec) constValue1(c *ssa.Const) Value {
	if c.Value == nil {
		return zero(c.Type())
	}
	t := c.Type()
	if tp, ok := t.(*types.TypeParam); ok {
		_ = tp
		panic("const of type parameter")
	}
	if b, ok := t.Underlying().(*types.Basic); ok {
		switch {
		case b.Info()&types.IsBoolean != 0:
			return sym.Bool(constantBool(c))
		case b.Info()&types.IsString != 0:
			return Str{S: constantString(c)}
		case b.Info()&types.IsInteger != 0:
			if constant.Sign(constant.ToInt(c.Value)) < 0 {
				return sym.Const(width(b), uint64(c.Int64()))
			}
			return sym.Const(width(b), c.Uint64())
		case b.Info()&types.IsFloat != 0:
			f := c.Float64()
			if width(b) == 32 {
				return sym.Const(32, uint64(f32bits(float32(f))))
			}
			return sym.Const(64, f64bits(f))
		case b.Kind() == types.UnsafePointer:
			return (*Value)(nil)
		}
	}
	if _, ok := t.Underlying().(*types.Interface); ok {
		// constant converted to interface? not produced by go/ssa
	}
	panic(fmt.Sprintf("constValue: %s of type %s", c, t))
}

// ---- path-level events ----------------------------------------------------------

func (ex *Exec) unsupported(why string) {
	panic(pathEnd{endInconclusive, "unsupported: " + why})
}

func (ex *Exec) inconclusive(why string) {
	panic(pathEnd{endInconclusive, why})
}

func (ex *Exec) runtimePanic(fr *frame, in ssa.Instruction, msg string) {
	site := ""
	if fr != nil && in != nil {
		site = ex.instrPos(fr, in)
	}
	panic(&targetPanic{v: Iface{T: ex.runtimeErrorType(), V: Str{S: "runtime error: " + msg}}, runtime: true, msg: "runtime error: " + msg, site: site})
}

// runtimeErrorType is the dynamic type given to runtime panics: a named string
// type would do; we use the universe `error`-implementing *errors.errorString
// when available so that recover() callers can call Error().
func (ex *Exec) runtimeErrorType() types.Type {
	return types.Typ[types.String]
}

// ---- running frames -----------------------------------------------------------

func (ex *Exec) callSSA(caller *frame, fn *ssa.Function, args []Value, env []Value, site ssa.Instruction) Value {
	if fn == nil {
		ex.runtimePanic(caller, site, "invalid memory address or nil pointer dereference (call of nil func)")
	}
	name := ex.fname(fn)
	if fn.Parent() == nil {
		if ex.inInit && isInitFunc(fn) {
			if fn.Pkg != nil && ex.initDone[fn.Pkg] {
				return nil
			}
		}
		if rep, ok := ex.replacement(name); ok && !ex.inInit {
			ex.noteFunc(rep, "replacement for "+name)
			fn = rep
			name = ex.fname(fn)
		}
		if in, ok := intrinsics[name]; ok {
			ex.noteIntrinsic(name)
			return in(ex, caller, fn, args, site)
		}
		if ex.isHarnessRT(fn) {
			return ex.callVF(caller, fn, args, site)
		}
	}
	if fn.Blocks == nil {
		if in := genericIntrinsic(fn); in != nil {
			ex.noteIntrinsic(name)
			return in(ex, caller, fn, args, site)
		}
		from := ""
		if caller != nil {
			from = " (called from " + ex.fname(caller.fn) + ")"
		}
		ex.unsupported("function without Go body: " + name + from)
	}
	ex.depth++
	if ex.depth > ex.cfg.MaxDepth {
		ex.inconclusive("call depth limit exceeded at " + name)
	}
	ex.noteFunc(fn, "")
	fi := ex.info(fn)
	fr := &frame{ex: ex, caller: caller, fn: fn, fi: fi, env: make([]Value, fi.n), depth: ex.depth}
	if !ex.inInit && ex.job != nil {
		if hook, ok := ex.job.Cuts[name]; ok {
			if h := loopHeader(fn); h != nil {
				fr.cutState = &cutState{header: h, hook: hook}
			}
		}
	}
	for i, p := range fn.Params {
		fr.env[fi.idx[vkey(p)]] = args[i]
	}
	for i, fv := range fn.FreeVars {
		fr.env[fi.idx[vkey(fv)]] = env[i]
	}
	fr.block = fn.Blocks[0]
	for fr.block != nil {
		ex.runFrame(fr)
	}
	ex.depth--
	return fr.result
}

func (ex *Exec) runFrame(fr *frame) {
	defer func() {
		if fr.block == nil {
			return // normal return
		}
		r := recover()
		tp, ok := r.(*targetPanic)
		if !ok {
			if _, pe := r.(pathEnd); !pe && fr.ex.cfg.Debug {
				if _, k := r.(killed); !k {
					fmt.Printf("  engine panic unwinding through %s block %d\n", fr.fn, fr.block.Index)
				}
			}
			panic(r) // pathEnd or an engine bug: not visible to the target
		}
		fr.panicking = true
		fr.panic = tp
		fr.ex.depth = fr.depth
		fr.runDefers()
		fr.block = fr.fn.Recover
		if fr.block == nil {
			// recovered, no named results: return zero values
			fr.result = zeroResults(fr.fn)
		}
	}()
	for {
		if fr.ex.cfg.Trace {
			fmt.Printf("%*s.%s:%d\n", fr.ex.depth, "", fr.fn, fr.block.Index)
		}
		// φ-nodes are evaluated simultaneously on block entry
		instrs := fr.block.Instrs
		nphi := 0
		for nphi < len(instrs) {
			if _, ok := instrs[nphi].(*ssa.Phi); !ok {
				break
			}
			nphi++
		}
		if fr.phisDone {
			fr.phisDone = false
		} else if nphi > 0 {
			pi := -1
			for i, p := range fr.block.Preds {
				if p == fr.prevBlock {
					pi = i
					break
				}
			}
			if pi < 0 {
				panic("phi: predecessor not found")
			}
			if fr.cutState != nil && fr.block == fr.cutState.header {
				fr.ex.atCutHeader(fr, pi, instrs[:nphi])
			} else {
				var tmp [8]Value
				vals := tmp[:0]
				for _, in := range instrs[:nphi] {
					vals = append(vals, fr.get(in.(*ssa.Phi).Edges[pi]))
				}
				for i, in := range instrs[:nphi] {
					fr.set(in.(*ssa.Phi), vals[i])
				}
			}
		}
	block:
		for _, in := range instrs[nphi:] {
			fr.ex.steps++
			if fr.ex.steps > fr.ex.cfg.MaxSteps {
				fr.ex.inconclusive(fmt.Sprintf("step limit %d exceeded in %s", fr.ex.cfg.MaxSteps, fr.fn))
			}
			switch fr.ex.visit(fr, in) {
			case kReturn:
				return
			case kJump:
				break block
			}
		}
	}
}

func zeroResults(fn *ssa.Function) Value {
	res := fn.Signature.Results()
	switch res.Len() {
	case 0:
		return nil
	case 1:
		return zero(res.At(0).Type())
	}
	return zero(res)
}

func (fr *frame) runDefer(d *deferred) {
	ok := false
	defer func() {
		if !ok {
			r := recover()
			tp, isTP := r.(*targetPanic)
			if !isTP {
				panic(r)
			}
			// a deferred call started a new panic
			fr.panicking = true
			fr.panic = tp
		}
	}()
	fr.ex.call(fr, d.fn, d.args, d.instr)
	ok = true
}

func (fr *frame) runDefers() {
	for d := fr.defers; d != nil; d = d.tail {
		fr.runDefer(d)
	}
	fr.defers = nil
	if fr.panicking {
		panic(fr.panic)
	}
}

type continuation int

const (
	kNext continuation = iota
	kReturn
	kJump
)

func (ex *Exec) call(caller *frame, fn Value, args []Value, site ssa.Instruction) Value {
	switch fn := fn.(type) {
	case *ssa.Function:
		return ex.callSSA(caller, fn, args, nil, site)
	case *Closure:
		return ex.callSSA(caller, fn.Fn, args, fn.Env, site)
	case *ssa.Builtin:
		return ex.callBuiltin(caller, fn, args, site)
	case Bad:
		ex.unsupported("call of poisoned function value: " + fn.Why)
	}
	panic(fmt.Sprintf("cannot call %T", fn))
}

func (ex *Exec) prepareCall(fr *frame, call *ssa.CallCommon, site ssa.Instruction) (fn Value, args []Value) {
	v := fr.get(call.Value)
	if call.Method == nil {
		fn = v
	} else {
		recv, ok := v.(Iface)
		if !ok {
			ex.unsupported(fmt.Sprintf("invoke on %T", v))
		}
		if recv.T == nil {
			ex.runtimePanic(fr, site, "invalid memory address or nil pointer dereference (method "+call.Method.Name()+" invoked on nil interface)")
		}
		f := ex.lookupMethod(recv.T, call.Method)
		if f == nil {
			ex.unsupported(fmt.Sprintf("method set of %v lacks %s", recv.T, call.Method))
		}
		fn = f
		args = append(args, recv.V)
	}
	for _, a := range call.Args {
		args = append(args, fr.get(a))
	}
	return
}

func (ex *Exec) lookupMethod(t types.Type, m *types.Func) *ssa.Function {
	return ex.prog.LookupMethod(t, m.Pkg(), m.Name())
}

func (ex *Exec) visit(fr *frame, instr ssa.Instruction) continuation {
	if ex.inInit && fr.caller == nil || ex.inInit && isInitFunc(fr.fn) {
		return ex.visitInit(fr, instr)
	}
	return ex.visit1(fr, instr)
}

func isInitFunc(fn *ssa.Function) bool {
	return fn.Synthetic != "" && fn.Name() == "init" && fn.Parent() == nil
}

// visitInit runs one instruction of a package initialiser; an unsupported
// operation poisons the instruction's value instead of ending the run.
func (ex *Exec) visitInit(fr *frame, instr ssa.Instruction) (k continuation) {
	defer func() {
		if r := recover(); r != nil {
			why := ""
			switch r := r.(type) {
			case pathEnd:
				why = r.why
			case *targetPanic:
				why = "panic during init: " + r.msg
			default:
				why = fmt.Sprintf("engine error during init: %v", r)
			}
			if v, ok := instr.(ssa.Value); ok {
				fr.set(v, poisonFor(v.Type(), why+" @ "+ex.instrPos(fr, instr)))
			}
			ex.initProblems = append(ex.initProblems, ex.instrPos(fr, instr)+": "+why)
			switch instr.(type) {
			case *ssa.If, *ssa.Jump, *ssa.Return, *ssa.Panic:
				// cannot continue this initialiser
				fr.block = nil
				k = kReturn
			default:
				k = kNext
			}
			ex.depth = fr.depth
		}
	}()
	return ex.visit1(fr, instr)
}

func (ex *Exec) replacement(name string) (*ssa.Function, bool) {
	if ex.job != nil {
		if r, ok := ex.job.Replace[name]; ok {
			return r, true
		}
	}
	r, ok := ex.cfg.Replace[name]
	return r, ok
}

func poisonFor(t types.Type, why string) Value {
	if tup, ok := t.(*types.Tuple); ok {
		r := make(Tuple, tup.Len())
		for i := range r {
			r[i] = Bad{why}
		}
		return r
	}
	return Bad{why}
}

func (ex *Exec) visit1(fr *frame, instr ssa.Instruction) continuation {
	switch instr := instr.(type) {
	case *ssa.DebugRef:

	case *ssa.UnOp:
		fr.set(instr, ex.unop(fr, instr, fr.get(instr.X)))

	case *ssa.BinOp:
		fr.set(instr, ex.binop(fr, instr, instr.Op, instr.X.Type(), fr.get(instr.X), fr.get(instr.Y), instr.Y.Type()))

	case *ssa.Call:
		fn, args := ex.prepareCall(fr, &instr.Call, instr)
		fr.set(instr, ex.call(fr, fn, args, instr))

	case *ssa.ChangeInterface:
		fr.set(instr, fr.get(instr.X))

	case *ssa.ChangeType:
		fr.set(instr, fr.get(instr.X))

	case *ssa.Convert:
		fr.set(instr, ex.conv(fr, instr, instr.Type(), instr.X.Type(), fr.get(instr.X)))

	case *ssa.MakeInterface:
		fr.set(instr, Iface{T: instr.X.Type(), V: fr.get(instr.X)})

	case *ssa.Extract:
		t := fr.get(instr.Tuple)
		if b, ok := t.(Bad); ok {
			fr.set(instr, b)
		} else {
			fr.set(instr, t.(Tuple)[instr.Index])
		}

	case *ssa.Slice:
		fr.set(instr, ex.slice(fr, instr))

	case *ssa.Return:
		switch len(instr.Results) {
		case 0:
		case 1:
			fr.result = fr.get(instr.Results[0])
		default:
			res := make(Tuple, len(instr.Results))
			for i, r := range instr.Results {
				res[i] = fr.get(r)
			}
			fr.result = res
		}
		fr.block = nil
		return kReturn

	case *ssa.RunDefers:
		fr.runDefers()

	case *ssa.Panic:
		v := fr.get(instr.X)
		panic(&targetPanic{v: v, msg: "panic: " + ex.panicString(v), site: ex.instrPos(fr, instr)})

	case *ssa.Send:
		ex.chanSend(fr, instr, fr.get(instr.Chan), fr.get(instr.X))

	case *ssa.Store:
		ex.store(fr, instr, fr.get(instr.Addr), fr.get(instr.Val))

	case *ssa.If:
		cond := fr.get(instr.Cond).(*sym.Term)
		succ := 1
		if ex.tryMergeDiamond(fr, instr, cond) {
			return kJump
		}
		if ex.branch(cond, instr, fr) {
			succ = 0
		}
		fr.prevBlock, fr.block = fr.block, fr.block.Succs[succ]
		return kJump

	case *ssa.Jump:
		fr.prevBlock, fr.block = fr.block, fr.block.Succs[0]
		return kJump

	case *ssa.Defer:
		fn, args := ex.prepareCall(fr, &instr.Call, instr)
		fr.defers = &deferred{fn: fn, args: args, instr: instr, tail: fr.defers}

	case *ssa.Go:
		ex.goStmt(fr, instr)

	case *ssa.MakeChan:
		n := ex.concretize(fr.get(instr.Size).(*sym.Term), instr, fr)
		fr.set(instr, &Chan{Cap: int(n), ElemT: instr.Type().Underlying().(*types.Chan).Elem()})

	case *ssa.Alloc:
		addr := new(Value)
		*addr = zero(instr.Type().Underlying().(*types.Pointer).Elem())
		fr.set(instr, addr)

	case *ssa.MakeSlice:
		fr.set(instr, ex.makeSlice(fr, instr))

	case *ssa.MakeMap:
		fr.set(instr, newMap(instr.Type().Underlying().(*types.Map).Key()))

	case *ssa.Range:
		fr.set(instr, ex.rangeIter(fr, instr, fr.get(instr.X)))

	case *ssa.Next:
		fr.set(instr, ex.next(fr, instr, fr.get(instr.Iter).(*rangeIter)))

	case *ssa.FieldAddr:
		p, ok := fr.get(instr.X).(*Value)
		if !ok {
			ex.unsupported(fmt.Sprintf("FieldAddr through %T", fr.get(instr.X)))
		}
		if p == nil {
			ex.runtimePanic(fr, instr, "invalid memory address or nil pointer dereference")
		}
		s, ok := (*p).(Struct)
		if !ok {
			ex.badCell(*p, "FieldAddr")
		}
		fr.set(instr, &s[instr.Field])

	case *ssa.Field:
		x := fr.get(instr.X)
		s, ok := x.(Struct)
		if !ok {
			ex.badCell(x, "Field")
		}
		fr.set(instr, s[instr.Field])

	case *ssa.IndexAddr:
		fr.set(instr, ex.indexAddr(fr, instr))

	case *ssa.Index:
		fr.set(instr, ex.index(fr, instr))

	case *ssa.Lookup:
		fr.set(instr, ex.lookup(fr, instr))

	case *ssa.MapUpdate:
		m, ok := fr.get(instr.Map).(*Map)
		if !ok {
			ex.badCell(fr.get(instr.Map), "MapUpdate")
		}
		if m == nil {
			panic(&targetPanic{v: Str{S: "assignment to entry in nil map"}, runtime: true, msg: "assignment to entry in nil map", site: ex.instrPos(fr, instr)})
		}
		ex.mapSet(fr, instr, m, fr.get(instr.Key), copyVal(fr.get(instr.Value)))

	case *ssa.TypeAssert:
		fr.set(instr, ex.typeAssert(fr, instr, fr.get(instr.X)))

	case *ssa.MakeClosure:
		var bindings []Value
		for _, b := range instr.Bindings {
			bindings = append(bindings, fr.get(b))
		}
		fr.set(instr, &Closure{instr.Fn.(*ssa.Function), bindings})

	case *ssa.Phi:
		panic("phi outside block entry")

	case *ssa.Select:
		fr.set(instr, ex.selectStmt(fr, instr))

	case *ssa.SliceToArrayPointer:
		ex.unsupported("SliceToArrayPointer")

	default:
		ex.unsupported(fmt.Sprintf("instruction %T", instr))
	}
	return kNext
}

func (ex *Exec) badCell(v Value, op string) {
	switch v := v.(type) {
	case Bad:
		ex.unsupported(op + " on poisoned value: " + v.Why)
	case Freed:
		panic(pathEnd{endViolation, "use of freed (unmapped) memory in " + op})
	}
	panic(fmt.Sprintf("%s: unexpected %T", op, v))
}

func (ex *Exec) panicString(v Value) string {
	switch v := v.(type) {
	case Iface:
		if v.T == nil {
			return "nil"
		}
		if s, ok := v.V.(Str); ok {
			if s.Concrete() {
				return s.S
			}
			return "<symbolic string>"
		}
		// error values: try Error() for *errors.errorString and friends
		if p, ok := v.V.(*Value); ok && p != nil {
			if st, ok := (*p).(Struct); ok && len(st) >= 1 {
				if s, ok := st[0].(Str); ok && s.Concrete() {
					return v.T.String() + ": " + s.S
				}
			}
		}
		return v.T.String() + " " + ToString(v.V)
	case Str:
		return v.S
	}
	return ToString(v)
}

// ---- memory -----------------------------------------------------------------

type undo struct {
	p   *Value
	old Value
}

func (ex *Exec) setCell(p *Value, v Value) {
	if !ex.inInit {
		ex.trail = append(ex.trail, undo{p, *p})
	}
	*p = v
}

// storeInto writes v into the cell at p, in place for aggregates so that
// pointers to fields/elements taken earlier keep aliasing the variable.
func (ex *Exec) storeInto(p *Value, v Value) {
	switch nv := v.(type) {
	case Struct:
		if old, ok := (*p).(Struct); ok && len(old) == len(nv) {
			for i := range nv {
				ex.storeInto(&old[i], nv[i])
			}
			return
		}
		ex.setCell(p, copyVal(v))
	case Array:
		if old, ok := (*p).(Array); ok && len(old) == len(nv) {
			for i := range nv {
				ex.storeInto(&old[i], nv[i])
			}
			return
		}
		ex.setCell(p, copyVal(v))
	default:
		ex.setCell(p, v)
	}
}

func (ex *Exec) store(fr *frame, in ssa.Instruction, addr Value, v Value) {
	switch a := addr.(type) {
	case *Value:
		if a == nil {
			ex.runtimePanic(fr, in, "invalid memory address or nil pointer dereference")
		}
		if _, ok := (*a).(Freed); ok {
			panic(pathEnd{endViolation, "write to freed (unmapped) memory at " + ex.instrPos(fr, in)})
		}
		ex.storeInto(a, v)
	case *SymPtr:
		nv, ok := v.(*sym.Term)
		if !ok {
			ex.unsupported("store of non-scalar through symbolic index")
		}
		for k := range a.Cells {
			old, ok := a.Cells[k].(*sym.Term)
			if !ok {
				ex.badCell(a.Cells[k], "store")
			}
			c := ex.ctx.Cmp(sym.OEq, a.Idx, sym.Const(64, uint64(k)))
			ex.setCell(&a.Cells[k], ex.ctx.Ite(c, nv, old))
		}
	case Bad:
		ex.unsupported("store through poisoned pointer: " + a.Why)
	default:
		panic(fmt.Sprintf("store through %T", addr))
	}
}

func (ex *Exec) load(fr *frame, in ssa.Instruction, addr Value) Value {
	switch a := addr.(type) {
	case *Value:
		if a == nil {
			ex.runtimePanic(fr, in, "invalid memory address or nil pointer dereference")
		}
		v := *a
		if _, ok := v.(Freed); ok {
			panic(pathEnd{endViolation, "read of freed (unmapped) memory at " + ex.instrPos(fr, in)})
		}
		if b, ok := v.(Bad); ok && !ex.inInit {
			ex.unsupported("load of poisoned value: " + b.Why)
		}
		return copyVal(v)
	case *SymPtr:
		return ex.selectCells(fr, in, a.Cells, a.Idx)
	case Bad:
		ex.unsupported("load through poisoned pointer: " + a.Why)
	}
	panic(fmt.Sprintf("load through %T", addr))
}

// selectCells builds cells[idx] for an in-range symbolic idx over scalar cells.
func (ex *Exec) selectCells(fr *frame, in ssa.Instruction, cells []Value, idx *sym.Term) Value {
	n := len(cells)
	allConst := n >= 16
	var w uint16
	for _, c := range cells {
		t, ok := c.(*sym.Term)
		if !ok {
			if _, fz := c.(Freed); fz {
				panic(pathEnd{endViolation, "read of freed (unmapped) memory at " + ex.instrPos(fr, in)})
			}
			ex.unsupported(fmt.Sprintf("symbolic index over %T cells", c))
		}
		w = t.W
		if !t.IsConst() {
			allConst = false
		}
	}
	if allConst && w > 0 {
		tb := ex.tableFor(cells, w)
		return ex.ctx.Select(tb, idx)
	}
	r := cells[n-1].(*sym.Term)
	for k := n - 2; k >= 0; k-- {
		c := ex.ctx.Cmp(sym.OEq, idx, sym.Const(64, uint64(k)))
		r = ex.ctx.Ite(c, cells[k].(*sym.Term), r)
	}
	return r
}

func (ex *Exec) tableFor(cells []Value, w uint16) *sym.Table {
	var sb strings.Builder
	vals := make([]uint64, len(cells))
	h := uint64(1469598103934665603)
	for i, c := range cells {
		vals[i] = c.(*sym.Term).Val
		h = (h ^ vals[i]) * 1099511628211
	}
	fmt.Fprintf(&sb, "%d_%d_%x", len(cells), w, h)
	name := sb.String()
	if tb, ok := ex.tables[name]; ok {
		return tb
	}
	tb := &sym.Table{Name: name, W: w, IdxW: 64, Vals: vals}
	ex.tables[name] = tb
	return tb
}

// boundsBranch makes the in-bounds decision for idx against n; on the
// out-of-bounds side it raises the Go runtime panic.
func (ex *Exec) boundsCheck(fr *frame, in ssa.Instruction, idx *sym.Term, n int, what string) {
	ok := ex.ctx.Cmp(sym.OUlt, idx, sym.Const(64, uint64(n)))
	if !ex.branch(ok, in, fr) {
		ex.runtimePanic(fr, in, fmt.Sprintf("index out of range [%s] with length %d", termStr(idx), n))
	}
}

func to64(ex *Exec, t *sym.Term, signed bool) *sym.Term {
	if t.W == 64 {
		return t
	}
	if signed {
		return ex.ctx.SExt(t, 64)
	}
	return ex.ctx.ZExt(t, 64)
}

func (ex *Exec) scalarElems(cells []Value) bool {
	for _, c := range cells {
		t, ok := c.(*sym.Term)
		if !ok {
			return false
		}
		_ = t
	}
	return len(cells) > 0
}

func (ex *Exec) indexAddr(fr *frame, instr *ssa.IndexAddr) Value {
	x := fr.get(instr.X)
	idx := to64(ex, fr.get(instr.Index).(*sym.Term), isSigned(instr.Index.Type()))
	var cells []Value
	switch x := x.(type) {
	case []Value:
		cells = x
	case *Value:
		if x == nil {
			ex.runtimePanic(fr, instr, "invalid memory address or nil pointer dereference")
		}
		a, ok := (*x).(Array)
		if !ok {
			ex.badCell(*x, "IndexAddr")
		}
		cells = a
	default:
		ex.badCell(x, "IndexAddr")
	}
	if idx.IsConst() {
		if idx.Val >= uint64(len(cells)) {
			ex.runtimePanic(fr, instr, fmt.Sprintf("index out of range [%d] with length %d", int64(idx.Val), len(cells)))
		}
		return &cells[idx.Val]
	}
	ex.boundsCheck(fr, instr, idx, len(cells), "index")
	if len(cells) <= ex.cfg.MaxSymIndex && ex.scalarElems(cells) {
		if len(cells) == 1 {
			return &cells[0]
		}
		return &SymPtr{Cells: cells, Idx: idx}
	}
	k := ex.concretize(idx, instr, fr)
	return &cells[k]
}

func (ex *Exec) index(fr *frame, instr *ssa.Index) Value {
	x := fr.get(instr.X)
	idx := to64(ex, fr.get(instr.Index).(*sym.Term), isSigned(instr.Index.Type()))
	switch x := x.(type) {
	case Array:
		if idx.IsConst() {
			if idx.Val >= uint64(len(x)) {
				ex.runtimePanic(fr, instr, fmt.Sprintf("index out of range [%d] with length %d", int64(idx.Val), len(x)))
			}
			return copyVal(x[idx.Val])
		}
		ex.boundsCheck(fr, instr, idx, len(x), "index")
		if len(x) <= ex.cfg.MaxSymIndex && ex.scalarElems(x) {
			return ex.selectCells(fr, instr, x, idx)
		}
		return copyVal(x[ex.concretize(idx, instr, fr)])
	case Str:
		n := x.Len()
		if idx.IsConst() {
			if idx.Val >= uint64(n) {
				ex.runtimePanic(fr, instr, fmt.Sprintf("index out of range [%d] with length %d", int64(idx.Val), n))
			}
			return x.Byte(int(idx.Val))
		}
		ex.boundsCheck(fr, instr, idx, n, "index")
		cells := make([]Value, n)
		for i := 0; i < n; i++ {
			cells[i] = x.Byte(i)
		}
		return ex.selectCells(fr, instr, cells, idx)
	}
	ex.badCell(x, "Index")
	return nil
}

func (ex *Exec) slice(fr *frame, instr *ssa.Slice) Value {
	x := fr.get(instr.X)
	var lo, hi, max *sym.Term
	if instr.Low != nil {
		lo = to64(ex, fr.get(instr.Low).(*sym.Term), isSigned(instr.Low.Type()))
	}
	if instr.High != nil {
		hi = to64(ex, fr.get(instr.High).(*sym.Term), isSigned(instr.High.Type()))
	}
	if instr.Max != nil {
		max = to64(ex, fr.get(instr.Max).(*sym.Term), isSigned(instr.Max.Type()))
	}
	var length, capacity int
	var cells []Value
	var str Str
	isStr := false
	switch x := x.(type) {
	case Str:
		isStr = true
		str = x
		length, capacity = x.Len(), x.Len()
	case []Value:
		cells = x
		length, capacity = len(x), cap(x)
	case *Value:
		if x == nil {
			ex.runtimePanic(fr, instr, "invalid memory address or nil pointer dereference")
		}
		a, ok := (*x).(Array)
		if !ok {
			ex.badCell(*x, "Slice")
		}
		cells = a
		length, capacity = len(a), len(a)
	default:
		ex.badCell(x, "Slice")
	}
	if lo == nil {
		lo = sym.Const(64, 0)
	}
	if hi == nil {
		hi = sym.Const(64, uint64(length))
	}
	capT := sym.Const(64, uint64(capacity))
	c := ex.ctx
	// 0 <= lo <= hi <= max <= cap  (unsigned compare covers negatives)
	ok := c.Cmp(sym.OUle, lo, hi)
	if max != nil {
		ok = c.BAnd(ok, c.BAnd(c.Cmp(sym.OUle, hi, max), c.Cmp(sym.OUle, max, capT)))
	} else {
		ok = c.BAnd(ok, c.Cmp(sym.OUle, hi, capT))
	}
	if !ex.branch(ok, instr, fr) {
		ex.runtimePanic(fr, instr, fmt.Sprintf("slice bounds out of range [%s:%s] with capacity %d", termStr(lo), termStr(hi), capacity))
	}
	l := int(ex.concretize(lo, instr, fr))
	h := int(ex.concretize(hi, instr, fr))
	if isStr {
		return str.Slice(l, h)
	}
	if max != nil {
		m := int(ex.concretize(max, instr, fr))
		if cells == nil {
			return []Value(nil)
		}
		return cells[l:h:m]
	}
	if cells == nil {
		return []Value(nil)
	}
	return cells[l:h]
}

func (ex *Exec) makeSlice(fr *frame, instr *ssa.MakeSlice) Value {
	lenT := to64(ex, fr.get(instr.Len).(*sym.Term), true)
	capT := to64(ex, fr.get(instr.Cap).(*sym.Term), true)
	elem := instr.Type().Underlying().(*types.Slice).Elem()
	n := ex.allocLen(fr, instr, lenT, "len")
	cp := n
	if !sym.Same(lenT, capT) {
		cp = ex.allocLen(fr, instr, capT, "cap")
	}
	if n > cp {
		ex.runtimePanic(fr, instr, "makeslice: cap out of range")
	}
	s := make([]Value, cp)
	for i := range s {
		s[i] = zero(elem)
	}
	return s[:n]
}

// allocLen applies the allocation monitor to a (possibly symbolic) length.
// Lengths that are negative or above 2^40 make Go itself panic (or try to
// allocate terabytes): a runtime panic. Lengths above the harness's stated
// allocation limit are "out of proportion" (also reported as a panic); without
// a stated limit, exceeding the engine's own cap is inconclusive.
func (ex *Exec) allocLen(fr *frame, in ssa.Instruction, n *sym.Term, what string) int {
	c := ex.ctx
	const huge = uint64(1) << 40
	if n.IsConst() {
		if n.Val > huge {
			ex.runtimePanic(fr, in, fmt.Sprintf("makeslice: %s out of range (%d)", what, int64(n.Val)))
		}
		if int64(n.Val) > ex.allocLimit {
			if ex.allocLimitSet {
				ex.runtimePanic(fr, in, fmt.Sprintf("makeslice: allocation of %d elements is out of proportion (limit %d)", n.Val, ex.allocLimit))
			}
			ex.inconclusive(fmt.Sprintf("allocation of %d elements exceeds engine limit", int64(n.Val)))
		}
		return int(n.Val)
	}
	if ex.branch(c.Cmp(sym.OUlt, sym.Const(64, huge), n), in, fr) {
		ex.runtimePanic(fr, in, fmt.Sprintf("makeslice: %s out of range (symbolic length can be negative or above 2^40)", what))
	}
	if ex.branch(c.Cmp(sym.OUlt, sym.Const(64, uint64(ex.allocLimit)), n), in, fr) {
		if ex.allocLimitSet {
			// prefer a grossly large witness so that the native replay can observe it
			big := c.Cmp(sym.OUle, sym.Const(64, 1<<27), n)
			if r, _ := ex.solver.Check(big, nil); r == sym.Sat {
				ex.assertPC(big)
				ex.runtimePanic(fr, in, fmt.Sprintf("makeslice: allocation out of proportion (a length taken from the input can exceed 2^27 elements; stated limit %d)", ex.allocLimit))
			}
			ex.modelOnly = true
			ex.runtimePanic(fr, in, fmt.Sprintf("makeslice: allocation out of proportion (model-only witness: a length taken from the input can exceed the stated limit of %d elements)", ex.allocLimit))
		}
		ex.inconclusive("symbolic allocation length exceeds engine limit")
	}
	return int(ex.concretize(n, in, fr))
}
