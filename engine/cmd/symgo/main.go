// symgo: solver-based checking of bluge's real code.
//
//	symgo check <property> [-tier quick|thorough] [-harness name] [-workers n]
//	symgo replay <file>
//	symgo list
package main

import (
	"bytes"
	"encoding/json"
	"flag"
	"fmt"
	"os"
	osexec "os/exec"
	"path/filepath"
	"runtime/debug"
	"runtime/pprof"
	"sort"
	"strconv"
	"strings"
	"time"

	"golang.org/x/tools/go/ssa"

	"verif/symgo/exec"
	"verif/symgo/load"
)

const verifRoot = "/verif"

// repoRoot is the tree under test and outRoot the place evidence and replay
// files go. The registered commands use the defaults; tools/seed_eval.sh points
// them at a scratch copy (VF_REPO, VF_OUT) so that seeded changes are evaluated
// without touching /repo or the committed evidence.
var (
	repoRoot = envOr("VF_REPO", "/repo")
	outRoot  = envOr("VF_OUT", verifRoot)
)

func envOr(k, d string) string {
	if v := os.Getenv(k); v != "" {
		return v
	}
	return d
}

type knownFinding struct {
	Property string `json:"property"`
	State    string `json:"state"` // known | fixed
	ID       string `json:"id"`
	Harness  string `json:"harness"`
	Match    string `json:"match"` // substring of the violation message/site
	What     string `json:"what"`
	Commit   string `json:"commit,omitempty"`
}

func main() {
	debug.SetGCPercent(400)
	if len(os.Args) < 2 {
		fmt.Fprintln(os.Stderr, "usage: symgo check|replay|list ...")
		os.Exit(2)
	}
	switch os.Args[1] {
	case "check":
		os.Exit(cmdCheck(os.Args[2:]))
	case "replay":
		os.Exit(cmdReplay(os.Args[2:]))
	case "list":
		set, err := load.Discover(filepath.Join(verifRoot, "harness"), repoRoot)
		if err != nil {
			fmt.Fprintln(os.Stderr, err)
			os.Exit(2)
		}
		for _, h := range set.Harnesses {
			fmt.Printf("%s %s %s tier=%s cases=%s\n", h.Property, h.PkgDir, h.Name, h.Tier, h.Cases)
		}
	default:
		fmt.Fprintln(os.Stderr, "unknown command", os.Args[1])
		os.Exit(2)
	}
}

func optInt(h *load.Harness, tier, key string, def int) int {
	if v, ok := h.Opts[key+"."+tier]; ok {
		n, _ := strconv.Atoi(v)
		return n
	}
	if v, ok := h.Opts[key]; ok {
		n, _ := strconv.Atoi(v)
		return n
	}
	return def
}

func cmdCheck(args []string) int {
	fs := flag.NewFlagSet("check", flag.ExitOnError)
	tier := fs.String("tier", "", "quick|thorough")
	only := fs.String("harness", "", "run only harnesses whose name contains this")
	workers := fs.Int("workers", 16, "workers")
	debug := fs.Bool("debug", false, "engine errors crash with a stack")
	trace := fs.Bool("trace", false, "trace blocks")
	solver := fs.String("solver", "z3-new", "z3|z3-new|cvc5")
	noReplay := fs.Bool("no-replay", false, "skip native replay")
	caseFilter := fs.String("case", "", "run only cases whose label contains this")
	budget := fs.Int("budget", 0, "seconds (0: per tier default)")
	fixed := fs.String("inputs", "", "replay file: run the harness in concrete mode on these inputs")
	cpuprof := fs.String("cpuprofile", "", "write a CPU profile of the exploration")
	noEvidence := fs.Bool("no-evidence", false, "do not write the evidence file")
	decFile := fs.String("decisions", "", "replay file: re-execute exactly the recorded decision vector (branches and schedule) of its harness case")
	if len(args) < 1 {
		fmt.Fprintln(os.Stderr, "usage: symgo check <property> [flags]")
		return 2
	}
	prop := args[0]
	fs.Parse(args[1:])
	if *tier == "" {
		*tier = os.Getenv("VERIF_TIER")
	}
	if *tier == "" {
		*tier = "quick"
	}
	seed, _ := strconv.Atoi(os.Getenv("VERIF_SEED"))
	start := time.Now()

	set, err := load.Discover(filepath.Join(verifRoot, "harness"), repoRoot)
	if err != nil {
		fmt.Println("INCONCLUSIVE harness discovery:", err)
		return 2
	}
	var hs []*load.Harness
	dirSet := map[string]bool{}
	for _, h := range set.Harnesses {
		if h.Property != prop {
			continue
		}
		if h.Tier == "thorough" && *tier != "thorough" {
			continue
		}
		if *only != "" && !strings.Contains(h.Name, *only) {
			continue
		}
		hs = append(hs, h)
		dirSet[h.PkgDir] = true
	}
	if len(hs) == 0 {
		fmt.Println("INCONCLUSIVE no harness for property", prop)
		return 2
	}
	var dirs []string
	for d := range dirSet {
		dirs = append(dirs, d)
	}
	sort.Strings(dirs)
	tLoad := time.Now()
	prog, err := set.Load(dirs)
	if err != nil {
		fmt.Println("INCONCLUSIVE load:", err)
		return 2
	}
	loadS := time.Since(tLoad).Seconds()

	cfg := &exec.Config{
		Replace: map[string]*ssa.Function{}, Cuts: map[string]*ssa.Function{},
		HarnessPkgs: map[*ssa.Package]bool{},
		MaxSteps:    20_000_000, MaxDepth: 400, MaxSymIndex: 256, MapOrderMax: 0,
		UnwindCap: 64, ConcCap: 32, AllocLimit: 1 << 16, MaxPaths: 200000,
		QueryTimeout: 60000, Solver: *solver, Trace: *trace, Debug: *debug, SamplesPerJob: 2,
	}
	if *tier == "thorough" {
		cfg.QueryTimeout = 300000
	}
	if *fixed != "" {
		b, err := os.ReadFile(*fixed)
		if err != nil {
			fmt.Println("INCONCLUSIVE", err)
			return 2
		}
		var rf replayFile
		json.Unmarshal(b, &rf)
		cfg.Fixed = map[string]uint64{}
		for k, v := range rf.Inputs {
			n, _ := strconv.ParseUint(v, 10, 64)
			cfg.Fixed[k] = n
		}
	}
	var decPrefix []exec.Decision
	decCase := ""
	if *decFile != "" {
		b, err := os.ReadFile(*decFile)
		if err != nil {
			fmt.Println("INCONCLUSIVE", err)
			return 2
		}
		var rf replayFile
		json.Unmarshal(b, &rf)
		ds, ok := exec.ParseDecisions(rf.Decisions)
		if !ok || len(ds) == 0 {
			fmt.Println("INCONCLUSIVE replay file carries no replayable decision vector")
			return 2
		}
		decPrefix, decCase = ds, rf.Case
		*only = rf.Harness
	}
	bud := *budget
	if bud == 0 {
		bud = 600
		if *tier == "thorough" {
			bud = 3600
		}
	}
	cfg.Deadline = start.Add(time.Duration(bud) * time.Second)
	for _, p := range prog.Pkgs {
		cfg.HarnessPkgs[p] = true
	}
	var jobs []*exec.Job
	jobHarness := map[*exec.Job]*load.Harness{}
	for _, h := range hs {
		pkg := prog.Pkgs[h.PkgDir]
		fn := pkg.Func(h.Name)
		if fn == nil {
			fmt.Printf("INCONCLUSIVE harness %s not found in SSA package\n", h.Name)
			return 2
		}
		repl := map[string]*ssa.Function{}
		for _, r := range h.Replace {
			f := pkg.Func(r[1])
			if f == nil {
				fmt.Printf("INCONCLUSIVE replacement %s not found\n", r[1])
				return 2
			}
			repl[r[0]] = f
		}
		cuts := map[string]*ssa.Function{}
		for _, r := range h.Cuts {
			f := pkg.Func(r[1])
			if f == nil {
				fmt.Printf("INCONCLUSIVE cut hook %s not found\n", r[1])
				return 2
			}
			cuts[r[0]] = f
		}
		cases, err := h.ExpandCases(*tier)
		if err != nil {
			fmt.Println("INCONCLUSIVE", err)
			return 2
		}
		for _, c := range cases {
			if *caseFilter != "" && !strings.Contains(c.Label, *caseFilter) {
				continue
			}
			j := &exec.Job{Harness: fn, Args: c.Args, Case: c.Label, Name: h.Name, Replace: repl, Cuts: cuts,
				Meta: map[string]string{}}
			if v := optInt(h, *tier, "maxpaths", 0); v > 0 {
				j.Meta["maxpaths"] = strconv.Itoa(v)
			}
			if h.Opts["sched"] == "1" {
				j.Meta["sched"] = "1"
				j.Meta["schedbudget"] = strconv.Itoa(optInt(h, *tier, "schedbudget", 0))
				j.Meta["preempt"] = strconv.Itoa(optInt(h, *tier, "preempt", 0))
				j.Meta["schedtotal"] = strconv.Itoa(optInt(h, *tier, "schedtotal", 0))
				if h.Opts["deadlock"] != "" {
					j.Meta["deadlock"] = h.Opts["deadlock"]
				}
				if h.Opts["preemptatomics"] == "1" {
					j.Meta["preemptatomics"] = "1"
				}
			}
			if h.Opts["clock"] != "" {
				j.Meta["clock"] = h.Opts["clock"]
			}
			if decPrefix != nil {
				if c.Label != decCase {
					continue
				}
				j.Prefix, j.Single = decPrefix, true
			}
			if h.Opts["fpexact"] == "1" {
				j.Meta["fpexact"] = "1"
			}
			jobs = append(jobs, j)
			jobHarness[j] = h
		}
		if v := optInt(h, *tier, "unwind", 0); v > cfg.UnwindCap {
			cfg.UnwindCap = v
		}
		if v := optInt(h, *tier, "conc", 0); v > cfg.ConcCap {
			cfg.ConcCap = v
		}
		if v := optInt(h, *tier, "maporder", 0); v > cfg.MapOrderMax {
			cfg.MapOrderMax = v
		}
		if v := optInt(h, *tier, "chanslack", 0); v > cfg.ChanSlack {
			cfg.ChanSlack = v
		}
		if optInt(h, *tier, "goinline", 0) == 1 {
			cfg.GoInline = true
		}
		if optInt(h, *tier, "sched", 0) == 1 {
			cfg.Sched = true
			if v := optInt(h, *tier, "schedbudget", 0); v > cfg.SchedBudget {
				cfg.SchedBudget = v
			}
		}
		if v := optInt(h, *tier, "maxpaths", 0); v > cfg.MaxPaths {
			cfg.MaxPaths = v
		}
	}
	if *cpuprof != "" {
		f, _ := os.Create(*cpuprof)
		pprof.StartCPUProfile(f)
	}
	results, stats, err := exec.Explore(prog.Prog, cfg, jobs, *workers)
	if *cpuprof != "" {
		pprof.StopCPUProfile()
	}
	if err != nil {
		fmt.Println("INCONCLUSIVE engine:", err)
		return 2
	}

	// ---- triage ---------------------------------------------------------------
	known := loadKnown()
	var violations []*exec.Violation
	var inconcl []string
	type sample struct {
		Harness   string   `json:"harness"`
		Case      string   `json:"case"`
		Paths     int      `json:"feasible_paths"`
		Decisions int      `json:"max_decisions_on_a_path"`
		Asserts   []string `json:"assert_sites_reached"`
		Verdict   string   `json:"verdict"`
		WallMs    int64    `json:"wall_ms_at_completion"`
	}
	var samples []sample
	totalPaths, totalDone := 0, 0
	assertSites := map[string]int{}
	perHarness := map[string]map[string]int{}
	for _, r := range results {
		totalPaths += r.Paths
		totalDone += r.Done
		verdict := "holds on all paths"
		if len(r.Violations) > 0 {
			verdict = "violated"
		}
		if len(r.Inconclusive) > 0 {
			verdict = "inconclusive: " + r.Inconclusive[0]
			for _, w := range r.Inconclusive {
				inconcl = append(inconcl, fmt.Sprintf("%s[%s]: %s", r.Job.Name, r.Job.Case, w))
			}
		}
		violations = append(violations, r.Violations...)
		var sites []string
		for k, v := range r.AssertsHit {
			assertSites[r.Job.Name+": "+k] += v
			sites = append(sites, k)
		}
		sort.Strings(sites)
		if perHarness[r.Job.Name] == nil {
			perHarness[r.Job.Name] = map[string]int{}
		}
		perHarness[r.Job.Name]["paths"] += r.Paths
		perHarness[r.Job.Name]["cases"]++
		if r.SchedMax[0] > 0 {
			ph := perHarness[r.Job.Name]
			ph["schedules_explored"] += r.Paths
			ph["goroutine_switches_total"] += int(r.Switches)
			for k, name := range []string{"goroutines_max", "goroutine_switches_max_on_a_path", "schedule_departures_max_on_a_path"} {
				if r.SchedMax[k] > ph[name] {
					ph[name] = r.SchedMax[k]
				}
			}
		}
		if len(samples) < 12 || verdict != "holds on all paths" {
			if len(samples) < 40 {
				samples = append(samples, sample{r.Job.Name, r.Job.Case, r.Paths, r.MaxDecisions, sites, verdict, r.Wall.Milliseconds()})
			}
		}
	}
	// vacuity: every harness must have reached at least one assertion or ended
	// in a violation; a harness with zero assertion reaches is inconclusive.
	for _, h := range hs {
		reached := false
		for k := range assertSites {
			if strings.HasPrefix(k, h.Name+": ") {
				reached = true
			}
		}
		hasViol := false
		for _, v := range violations {
			if v.Harness == h.Name {
				hasViol = true
			}
		}
		if !reached && !hasViol && *caseFilter == "" {
			inconcl = append(inconcl, h.Name+": no assertion site was reached on any feasible path (vacuous)")
		}
	}

	// replay and classify violations
	replays := 0
	exit := 0
	var newViol, knownSeen []string
	seenKey := map[string]bool{}
	confirmedKey := map[string]bool{}
	triesKey := map[string]int{}
	os.MkdirAll(filepath.Join(outRoot, "replays"), 0o755)
	for _, v := range violations {
		h := findHarness(hs, v.Harness)
		key := v.Harness + "|" + v.Kind + "|" + v.Msg + "|" + v.Site
		if seenKey[key+"|"+v.Case] || confirmedKey[key] || triesKey[key] >= 4 {
			continue
		}
		seenKey[key+"|"+v.Case] = true
		triesKey[key]++
		file := filepath.Join(outRoot, "replays", fmt.Sprintf("%s-%s-%d.json", prop, v.Harness, len(seenKey)))
		var args []uint64
		for _, r := range results {
			if r.Job.Name == v.Harness && r.Job.Case == v.Case {
				args = r.Job.Args
			}
		}
		native := "skipped"
		modelOnly := h.ReplayMode == "model-only" || v.ModelOnly
		if modelOnly {
			native = "model-only (the violated clause is not observable natively)"
		}
		writeReplay(file, prop, v, args, native)
		confirmed := true
		if !*noReplay && !modelOnly {
			out, ok := nativeReplay(set, h, file)
			replays++
			for _, alt := range v.AltInputs {
				if ok {
					break
				}
				v2 := *v
				v2.Inputs = alt
				writeReplay(file, prop, &v2, args, native)
				out, ok = nativeReplay(set, h, file)
				replays++
				if ok {
					v.Inputs = alt
				}
			}
			native = out
			confirmed = ok
			writeReplay(file, prop, v, args, native)
		}
		if confirmed {
			confirmedKey[key] = true
		}
		if !confirmed {
			inconcl = append(inconcl, fmt.Sprintf("ENGINE-MISMATCH %s[%s]: solver counterexample (%s: %s) did not reproduce natively: %s; replay=%s", v.Harness, v.Case, v.Kind, v.Msg, native, file))
			continue
		}
		if kf := matchKnown(known, prop, v); kf != nil {
			knownSeen = append(knownSeen, fmt.Sprintf("KNOWN-FINDING: property=%s %s [%s] (%s)", prop, kf.What, kf.ID, v.Harness))
			os.Remove(file)
			continue
		}
		newViol = append(newViol, fmt.Sprintf("VIOLATION property=%s replay=%s", prop, file))
		fmt.Printf("  violation: %s[%s] %s: %s at %s inputs=%v\n", v.Harness, v.Case, v.Kind, v.Msg, v.Site, v.Inputs)
	}
	// ---- differential run: sampled passing paths must also pass natively ---------
	diffRuns := 0
	if !*noReplay && *fixed == "" {
		byPkg := map[string][]replayFile{}
		perHarnessCount := map[string]int{}
		for _, r := range results {
			h := jobHarness[findJob(jobs, r.Job)]
			if h == nil || h.ReplayMode == "model-only" || h.Opts["diff"] == "off" {
				continue
			}
			// harnesses that rely on function replacements or loop cuts behave
			// differently natively unless written for both modes (diff=on)
			if (len(h.Replace) > 0 || len(h.Cuts) > 0) && h.Opts["diff"] != "on" {
				continue
			}
			for _, smp := range r.Samples {
				if perHarnessCount[h.Name] >= 6 {
					break
				}
				perHarnessCount[h.Name]++
				args := r.Job.Args
				if args == nil {
					args = []uint64{}
				}
				byPkg[h.PkgDir] = append(byPkg[h.PkgDir], replayFile{Property: prop, Harness: h.Name, Case: r.Job.Case, Args: args, Inputs: smp})
			}
		}
		for pkgDir, entries := range byPkg {
			outs := nativeBatch(set, pkgDir, entries)
			for i, e := range entries {
				diffRuns++
				if i >= len(outs) || !strings.HasSuffix(outs[i], " clean") {
					got := "no output (process died?)"
					if i < len(outs) {
						got = outs[i]
					}
					file := filepath.Join(outRoot, "replays", fmt.Sprintf("%s-%s-diff%d.json", prop, e.Harness, i))
					b, _ := json.MarshalIndent(e, "", " ")
					os.WriteFile(file, b, 0o644)
					inconcl = append(inconcl, fmt.Sprintf("ENGINE-MISMATCH %s[%s]: a path the engine completed without violation does not pass natively on its own model: %s; inputs=%s", e.Harness, e.Case, got, file))
				}
			}
		}
	}
	replays += diffRuns
	// expected findings that were not seen: only informational
	sort.Strings(knownSeen)
	knownSeen = uniq(knownSeen)
	for _, l := range knownSeen {
		fmt.Println(l)
	}
	for _, l := range newViol {
		fmt.Println(l)
		exit = 1
	}
	if exit == 0 && len(inconcl) > 0 {
		exit = 2
		for i, l := range inconcl {
			if i < 15 {
				fmt.Println("INCONCLUSIVE", l)
			}
		}
	}

	// ---- evidence ---------------------------------------------------------------
	var assumptions []string
	var bounds []string
	var replNames []string
	for _, h := range hs {
		for _, b := range h.Bounds {
			bounds = append(bounds, h.Name+": "+b)
		}
		for _, a := range h.Assumes {
			assumptions = append(assumptions, h.Name+": "+a)
		}
		for _, r := range h.Replace {
			replNames = append(replNames, fmt.Sprintf("%s: %s replaced by harness model %s", h.Name, r[0], r[1]))
		}
		for _, r := range h.Cuts {
			assumptions = append(assumptions, fmt.Sprintf("%s: loop of %s cut at its header; invariant hook %s (init/step/exit obligations)", h.Name, r[0], r[1]))
		}
	}
	assumptions = append(assumptions, uniq(replNames)...)
	assumptions = append(assumptions,
		"engine: single logical thread; atomics are plain accesses; mutexes detect self-deadlock only",
		"engine: heap shape concrete, symbolic lengths/indices concretised by forking up to the stated caps (exceeding a cap is reported as inconclusive)",
		"engine: float arithmetic (+,-,*,/ and math.Log etc.) uninterpreted unless stated; float comparisons/conversions exact (SMT FloatingPoint)",
		"trusted: go/ssa translation of Go to SSA, the SMT solver (z3 5.1.0 as z3-new by default; z3 4.8.12 via -solver z3)",
	)
	var repoFuncs, depFuncs []string
	for _, k := range exec.SortedKeys(stats.Funcs) {
		pos := stats.Funcs[k]
		if strings.Contains(k, "VF_") || strings.Contains(k, ".vf") {
			continue
		}
		if strings.Contains(k, "github.com/blugelabs/bluge") && !strings.Contains(k, "bluge_segment_api") {
			repoFuncs = append(repoFuncs, k+" @ "+pos)
		} else {
			depFuncs = append(depFuncs, k)
		}
	}
	var intr []string
	for k := range stats.Intrinsics {
		intr = append(intr, k)
	}
	sort.Strings(intr)
	if len(depFuncs) > 60 {
		depFuncs = append(depFuncs[:60], fmt.Sprintf("... and %d more", len(depFuncs)-60))
	}
	wall := time.Since(start).Seconds()
	ev := map[string]interface{}{
		"property_id": prop,
		"tier":        *tier,
		"seed":        seed,
		"level":       "model_checking",
		"wall_s":      wall,
		"violations":  len(newViol),
		"assumptions": assumptions,
		"coverage": map[string]interface{}{
			"states":                        max1(totalPaths),
			"transitions":                   max1(stats.Sat + stats.Unsat),
			"traces_validated_against_impl": replays,
			"samples":                       samples,
			"explanation":                   "states = feasible symbolic paths explored (each covers every input value satisfying its path condition); transitions = solver queries decided (sat+unsat)",
			"harness_cases":                 len(jobs),
			"paths_completed":               totalDone,
			"per_harness":                   perHarness,
			"queries":                       map[string]int{"sat": stats.Sat, "unsat": stats.Unsat, "unknown": stats.Unknown, "errors": stats.Errors},
			"solver_time_s":                 stats.SolverTime.Seconds(),
			"load_and_ssa_build_s":          loadS,
			"solver":                        *solver,
			"functions_encoded":             repoFuncs,
			"dependency_functions_executed": depFuncs,
			"intrinsics":                    intr,
			"bounds":                        bounds,
			"assert_sites":                  assertSites,
			"known_findings_seen":           knownSeen,
			"inconclusive":                  inconcl,
			"exhaustive":                    len(inconcl) == 0,
			"repo_head":                     gitHead(),
		},
	}
	os.MkdirAll(filepath.Join(outRoot, "evidence"), 0o755)
	b, _ := json.MarshalIndent(ev, "", " ")
	if !*noEvidence && ((*only == "" && *caseFilter == "") || os.Getenv("VF_FORCE_EVIDENCE") != "") {
		// partial runs (one harness, one case, a replay) never overwrite the property's evidence
		os.WriteFile(filepath.Join(outRoot, "evidence", prop+".json"), b, 0o644)
	}
	fmt.Printf("%s tier=%s harness-cases=%d paths=%d queries=%d (sat %d unsat %d unknown %d) solver=%.1fs wall=%.1fs exit=%d\n",
		prop, *tier, len(jobs), totalPaths, stats.Sat+stats.Unsat+stats.Unknown, stats.Sat, stats.Unsat, stats.Unknown, stats.SolverTime.Seconds(), wall, exit)
	if *debug {
		for _, p := range stats.InitProblems {
			fmt.Println("  init:", p)
		}
	}
	return exit
}

func findJob(jobs []*exec.Job, j *exec.Job) *exec.Job { return j }

// nativeBatch runs a list of replay entries of one package through a single
// go test invocation and returns the VF-REPLAY[i] lines in order.
func nativeBatch(set *load.Set, pkgDir string, entries []replayFile) []string {
	tmp := filepath.Join(outRoot, "replays", "tmp", "batch_"+strings.ReplaceAll(pkgDir, "/", "_")+"_"+strconv.Itoa(os.Getpid()))
	os.MkdirAll(tmp, 0o755)
	defer os.RemoveAll(tmp)
	listPath := filepath.Join(tmp, "list.json")
	b, _ := json.Marshal(entries)
	os.WriteFile(listPath, b, 0o644)
	var h *load.Harness
	for _, x := range set.Harnesses {
		if x.PkgDir == pkgDir {
			h = x
			break
		}
	}
	out := runNative(set, h, tmp, "VF_REPLAY_LIST="+listPath)
	res := make([]string, 0, len(entries))
	for i := range entries {
		tag := fmt.Sprintf("VF-REPLAY[%d]:", i)
		found := ""
		for _, l := range strings.Split(out, "\n") {
			if strings.HasPrefix(l, tag) {
				found = strings.TrimSpace(l)
			}
		}
		if found == "" {
			break
		}
		res = append(res, found)
	}
	return res
}

func max1(n int) int {
	if n < 1 {
		return 1
	}
	return n
}

func uniq(s []string) []string {
	var r []string
	for i, x := range s {
		if i == 0 || x != s[i-1] {
			r = append(r, x)
		}
	}
	return r
}

func gitHead() string {
	out, err := osexec.Command("git", "-C", repoRoot, "rev-parse", "HEAD").Output()
	if err != nil {
		return "?"
	}
	return strings.TrimSpace(string(out))
}

func findHarness(hs []*load.Harness, name string) *load.Harness {
	for _, h := range hs {
		if h.Name == name {
			return h
		}
	}
	return nil
}

func loadKnown() []knownFinding {
	var k []knownFinding
	b, err := os.ReadFile(filepath.Join(verifRoot, "known_findings.json"))
	if err != nil {
		return nil
	}
	json.Unmarshal(b, &k)
	return k
}

func matchKnown(known []knownFinding, prop string, v *exec.Violation) *knownFinding {
	for i := range known {
		k := &known[i]
		if k.State != "known" || k.Property != prop {
			continue
		}
		if k.Harness != "" && k.Harness != v.Harness {
			continue
		}
		if k.Match != "" && !strings.Contains(v.Msg+" "+v.Site, k.Match) {
			continue
		}
		return k
	}
	return nil
}

type replayFile struct {
	Property  string            `json:"property"`
	Harness   string            `json:"harness"`
	Case      string            `json:"case"`
	Args      []uint64          `json:"args"`
	Inputs    map[string]string `json:"inputs"`
	Decisions string            `json:"decisions"`
	Expect    map[string]string `json:"expect"`
	RepoHead  string            `json:"repo_head"`
	Native    string            `json:"native"`
}

func writeReplay(file, prop string, v *exec.Violation, args []uint64, native string) {
	rf := replayFile{Property: prop, Harness: v.Harness, Case: v.Case, Args: args, Inputs: v.Inputs, Decisions: v.Decisions,
		Expect: map[string]string{"kind": v.Kind, "msg": v.Msg, "site": v.Site}, RepoHead: gitHead(), Native: native}
	if rf.Args == nil {
		rf.Args = []uint64{}
	}
	b, _ := json.MarshalIndent(rf, "", " ")
	os.WriteFile(file, b, 0o644)
}

// nativeReplay runs the harness natively on the counterexample's inputs
// through go test -overlay; ok reports whether the violation reproduced.
func nativeReplay(set *load.Set, h *load.Harness, file string) (string, bool) {
	tmp := filepath.Join(outRoot, "replays", "tmp", strings.ReplaceAll(h.PkgDir, "/", "_")+"_"+strconv.Itoa(os.Getpid()))
	os.MkdirAll(tmp, 0o755)
	defer os.RemoveAll(tmp)
	s := runNative(set, h, tmp, "VF_REPLAY="+file)
	return classifyNative(s)
}

// runNative compiles the package of h with the harness files overlaid and runs
// TestVFReplay with the given environment entry; returns combined output.
func runNative(set *load.Set, h *load.Harness, tmp string, envEntry string) string {
	repoDir := repoRoot
	pattern := "."
	if h.PkgDir != "" {
		repoDir = filepath.Join(repoRoot, h.PkgDir)
		pattern = "./" + h.PkgDir
	}
	repl := map[string]string{}
	for _, f := range set.Files[h.PkgDir] {
		repl[filepath.Join(repoDir, filepath.Base(f))] = f
	}
	rt, err := set.RTSource(set.PkgName[h.PkgDir])
	if err != nil {
		return err.Error()
	}
	rtPath := filepath.Join(tmp, "zz_vf_rt.go")
	os.WriteFile(rtPath, rt, 0o644)
	repl[filepath.Join(repoDir, "zz_vf_rt.go")] = rtPath
	tPath := filepath.Join(tmp, "zz_vf_replay_test.go")
	os.WriteFile(tPath, set.ReplayTestSource(h.PkgDir), 0o644)
	repl[filepath.Join(repoDir, "zz_vf_replay_test.go")] = tPath
	ovb, _ := json.Marshal(map[string]interface{}{"Replace": repl})
	ovPath := filepath.Join(tmp, "overlay.json")
	os.WriteFile(ovPath, ovb, 0o644)
	cmd := osexec.Command("timeout", "600", "go", "test", "-tags", "verif", "-vet=off", "-count=1", "-overlay", ovPath, "-run", "^TestVFReplay$", "-v", pattern)
	cmd.Dir = repoRoot
	cmd.Env = append(os.Environ(), envEntry, "GOFLAGS=-mod=mod", "GOPROXY=off", "GOSUMDB=off", "GOTOOLCHAIN=local")
	var out bytes.Buffer
	cmd.Stdout, cmd.Stderr = &out, &out
	cmd.Run()
	return out.String()
}

func classifyNative(s string) (string, bool) {
	for _, l := range strings.Split(s, "\n") {
		if strings.HasPrefix(l, "VF-REPLAY:") {
			l = strings.TrimSpace(l)
			if strings.Contains(l, "VF-ASSUME-FALSE") || strings.Contains(l, "VF-REPLAY-ERROR") {
				return l, false
			}
			return l, strings.HasPrefix(l, "VF-REPLAY: violated")
		}
	}
	// crash of the test binary (SIGSEGV, fatal error, os.Exit): a confirmed fault
	for _, sig := range []string{"SIGSEGV", "SIGBUS", "fatal error:", "unexpected fault address", "panic:"} {
		if strings.Contains(s, sig) {
			i := strings.Index(s, sig)
			e := i + 160
			if e > len(s) {
				e = len(s)
			}
			return "VF-REPLAY: process crashed: " + strings.ReplaceAll(s[i:e], "\n", " | "), true
		}
	}
	if len(s) > 400 {
		s = s[len(s)-400:]
	}
	return "no VF-REPLAY line: " + strings.ReplaceAll(s, "\n", " | "), false
}

func cmdReplay(args []string) int {
	if len(args) < 1 {
		fmt.Fprintln(os.Stderr, "usage: symgo replay <file>")
		return 2
	}
	b, err := os.ReadFile(args[0])
	if err != nil {
		fmt.Fprintln(os.Stderr, err)
		return 2
	}
	var rf replayFile
	if err := json.Unmarshal(b, &rf); err != nil {
		fmt.Fprintln(os.Stderr, err)
		return 2
	}
	set, err := load.Discover(filepath.Join(verifRoot, "harness"), repoRoot)
	if err != nil {
		fmt.Fprintln(os.Stderr, err)
		return 2
	}
	h := findHarness(set.Harnesses, rf.Harness)
	if h == nil {
		fmt.Fprintln(os.Stderr, "unknown harness", rf.Harness)
		return 2
	}
	abs, _ := filepath.Abs(args[0])
	if h.ReplayMode == "model-only" || strings.HasPrefix(rf.Native, "model-only") {
		// the violated clause (or the schedule) is not observable natively: re-execute
		// exactly the recorded decision vector in the engine against the current tree
		tier := os.Getenv("VERIF_TIER")
		if tier == "" {
			tier = "quick"
		}
		return cmdCheck([]string{rf.Property, "-tier", tier, "-harness", rf.Harness, "-decisions", abs, "-no-replay", "-no-evidence"})
	}
	out, ok := nativeReplay(set, h, abs)
	fmt.Println(out)
	if ok {
		fmt.Printf("VIOLATION property=%s replay=%s\n", rf.Property, abs)
		return 1
	}
	return 0
}
