package sym

import "math"

// Evaluator computes the value of terms under an assignment of the variables.
// Terms containing uninterpreted functions (and, unless exact, FP arithmetic)
// have no value: ok=false.
type Evaluator struct {
	Vars map[string]uint64
	memo map[int32]evalRes
}

type evalRes struct {
	v  uint64
	ok bool
}

func NewEvaluator(vars map[string]uint64) *Evaluator {
	return &Evaluator{Vars: vars, memo: map[int32]evalRes{}}
}

func (e *Evaluator) Eval(t *Term) (uint64, bool) {
	switch t.Op {
	case OConst:
		return t.Val, true
	case OVar:
		v, ok := e.Vars[t.Name]
		return v & emask(t.W), ok
	}
	if r, ok := e.memo[t.id]; ok {
		return r.v, r.ok
	}
	v, ok := e.eval1(t)
	e.memo[t.id] = evalRes{v & emask(t.W), ok}
	return v & emask(t.W), ok
}

func emask(w uint16) uint64 {
	if w == 0 {
		return 1
	}
	return mask(w)
}

func b2u(b bool) uint64 {
	if b {
		return 1
	}
	return 0
}

func (e *Evaluator) eval1(t *Term) (uint64, bool) {
	var a [3]uint64
	if t.Op == OIte {
		c, ok := e.Eval(t.Args[0])
		if !ok {
			return 0, false
		}
		if c == 1 {
			return e.Eval(t.Args[1])
		}
		return e.Eval(t.Args[2])
	}
	if t.Op == OBAnd || t.Op == OBOr {
		x, okx := e.Eval(t.Args[0])
		y, oky := e.Eval(t.Args[1])
		if t.Op == OBAnd {
			if (okx && x == 0) || (oky && y == 0) {
				return 0, true
			}
			return b2u(x == 1 && y == 1), okx && oky
		}
		if (okx && x == 1) || (oky && y == 1) {
			return 1, true
		}
		return 0, okx && oky
	}
	if len(t.Args) > 3 {
		return 0, false
	}
	for i, x := range t.Args {
		v, ok := e.Eval(x)
		if !ok {
			return 0, false
		}
		a[i] = v
	}
	w := t.W
	var aw uint16
	if len(t.Args) > 0 {
		aw = t.Args[0].W
	}
	switch t.Op {
	case OAdd:
		return a[0] + a[1], true
	case OSub:
		return a[0] - a[1], true
	case OMul:
		return a[0] * a[1], true
	case OUDiv, OURem, OSDiv, OSRem, OAnd, OOr, OXor, OShl, OLShr, OAShr:
		c := &Ctx{}
		r := c.Bin(t.Op, Const(w, a[0]), Const(w, a[1]))
		return r.Val, r.Op == OConst
	case ONot:
		return ^a[0], true
	case ONeg:
		return -a[0], true
	case OConcat:
		return a[0]<<t.Args[1].W | a[1], true
	case OExtract:
		return a[0] >> t.Lo, true
	case OZExt:
		return a[0], true
	case OSExt:
		return uint64(sx(a[0], aw)), true
	case OEq:
		return b2u(a[0] == a[1]), true
	case OUlt:
		return b2u(a[0] < a[1]), true
	case OUle:
		return b2u(a[0] <= a[1]), true
	case OSlt:
		return b2u(sx(a[0], aw) < sx(a[1], aw)), true
	case OSle:
		return b2u(sx(a[0], aw) <= sx(a[1], aw)), true
	case OBNot:
		return a[0] ^ 1, true
	case OFEq, OFLt, OFLe:
		x, y := fbits(a[0], aw), fbits(a[1], aw)
		switch t.Op {
		case OFEq:
			return b2u(x == y), true
		case OFLt:
			return b2u(x < y), true
		default:
			return b2u(x <= y), true
		}
	case OFIsNaN:
		return b2u(math.IsNaN(fbits(a[0], aw))), true
	case OFIsInf:
		return b2u(math.IsInf(fbits(a[0], aw), 0)), true
	case OSelect:
		if a[0] < uint64(len(t.Table.Vals)) {
			return t.Table.Vals[a[0]], true
		}
		return 0, false
	}
	return 0, false
}

func fbits(v uint64, w uint16) float64 {
	if w == 32 {
		return float64(math.Float32frombits(uint32(v)))
	}
	return math.Float64frombits(v)
}
