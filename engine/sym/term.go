// Package sym is the term layer of symgo: a hash-consed DAG of bit-vector /
// boolean terms with a constant-folding simplifier and an SMT-LIB2 printer.
//
// Floats are carried as the bit-vector of their IEEE bits; FP predicates and
// conversions wrap them with to_fp at print time, FP arithmetic is either an
// uninterpreted function (default) or real fp.* (Ctx.FPExact).
package sym

import (
	"fmt"
	"math"
	"math/bits"
	"strings"
)

type Op uint8

const (
	OConst Op = iota
	OVar
	OAdd
	OSub
	OMul
	OUDiv
	OURem
	OSDiv
	OSRem
	OAnd
	OOr
	OXor
	ONot
	ONeg
	OShl
	OLShr
	OAShr
	OConcat
	OExtract // Hi, Lo
	OZExt    // to width W
	OSExt
	OEq
	OUlt
	OUle
	OSlt
	OSle
	OBNot
	OBAnd
	OBOr
	OIte
	// floating point over bit patterns (width 32 or 64)
	OFEq
	OFLt
	OFLe
	OFIsNaN
	OFIsInf
	OFNeg
	OFAbs
	OSIToFP // arg: BV (signed) -> FP bits of width W
	OUIToFP
	OFPToSI // arg: FP bits -> BV W (round toward zero)
	OFPToUI
	OFPToFP // float32<->float64
	OFAdd
	OFSub
	OFMul
	OFDiv
	OUF     // uninterpreted function Name(args) : sort
	OSelect // Table[Args[0]] — constant table
)

var opNames = map[Op]string{
	OAdd: "bvadd", OSub: "bvsub", OMul: "bvmul", OUDiv: "bvudiv", OURem: "bvurem", OSDiv: "bvsdiv", OSRem: "bvsrem",
	OAnd: "bvand", OOr: "bvor", OXor: "bvxor", ONot: "bvnot", ONeg: "bvneg", OShl: "bvshl", OLShr: "bvlshr", OAShr: "bvashr",
	OConcat: "concat", OEq: "=", OUlt: "bvult", OUle: "bvule", OSlt: "bvslt", OSle: "bvsle",
	OBNot: "not", OBAnd: "and", OBOr: "or", OIte: "ite",
}

// Term is a node. W == 0 means Bool; otherwise a bit-vector of width W.
type Term struct {
	Op     Op
	W      uint16
	Hi, Lo uint16
	Val    uint64 // OConst
	Name   string // OVar, OUF
	Args   []*Term
	Table  *Table
	id     int32 // >0 for interned non-leaf terms
	FW     uint16 // for FP ops: source float width where ambiguous
}

type Table struct {
	Name string
	W    uint16 // element width
	IdxW uint16
	Vals []uint64
}

func (t *Term) IsConst() bool { return t.Op == OConst }
func (t *Term) IsBool() bool  { return t.W == 0 }
func (t *Term) IsTrue() bool  { return t.Op == OConst && t.W == 0 && t.Val == 1 }
func (t *Term) IsFalse() bool { return t.Op == OConst && t.W == 0 && t.Val == 0 }
func (t *Term) ID() int32     { return t.id }

func mask(w uint16) uint64 {
	if w >= 64 {
		return ^uint64(0)
	}
	return (uint64(1) << w) - 1
}

// SignedVal returns the constant interpreted as a signed integer of its width.
func (t *Term) SignedVal() int64 {
	if t.W == 0 || t.W >= 64 {
		return int64(t.Val)
	}
	sh := 64 - uint(t.W)
	return int64(t.Val<<sh) >> sh
}

var (
	True  = &Term{Op: OConst, W: 0, Val: 1}
	False = &Term{Op: OConst, W: 0, Val: 0}
)

func Bool(b bool) *Term {
	if b {
		return True
	}
	return False
}

var smallConsts [65][258]*Term

func Const(w uint16, v uint64) *Term {
	v &= mask(w)
	if w <= 64 && v < 257 {
		if c := smallConsts[w][v]; c != nil {
			return c
		}
	}
	return &Term{Op: OConst, W: w, Val: v}
}

func init() {
	for w := 1; w <= 64; w++ {
		for v := 0; v < 257; v++ {
			if uint64(v) <= mask(uint16(w)) {
				smallConsts[w][v] = &Term{Op: OConst, W: uint16(w), Val: uint64(v)}
			}
		}
	}
}

// Ctx interns non-leaf terms of one path.
type Ctx struct {
	tab    map[string]*Term
	nextID int32
	vars   []*Term
	varIdx map[string]*Term
	// FPExact: print float arithmetic with the FloatingPoint theory instead of UFs.
	FPExact bool
	// FPReal: ideal-arithmetic reading (reals) — handled by the printer.
	FPReal bool
	Tables map[string]*Table
	UFs    map[string]*Term // sample application per UF name (for declarations)
}

func NewCtx() *Ctx {
	c := &Ctx{}
	c.Reset()
	return c
}

func (c *Ctx) Reset() {
	c.tab = make(map[string]*Term, 1024)
	c.nextID = 0
	c.vars = nil
	c.varIdx = map[string]*Term{}
	c.Tables = map[string]*Table{}
	c.UFs = map[string]*Term{}
}

func (c *Ctx) Vars() []*Term { return c.vars }

func (c *Ctx) Var(name string, w uint16) *Term {
	if v, ok := c.varIdx[name]; ok {
		if v.W != w {
			panic("sym: variable " + name + " redeclared with a different width")
		}
		return v
	}
	v := &Term{Op: OVar, W: w, Name: name}
	c.varIdx[name] = v
	c.vars = append(c.vars, v)
	return v
}

func key(t *Term) string {
	var sb strings.Builder
	sb.Grow(16 + 12*len(t.Args))
	fmt.Fprintf(&sb, "%d.%d.%d.%d.%d.%s", t.Op, t.W, t.Hi, t.Lo, t.FW, t.Name)
	if t.Table != nil {
		sb.WriteString(t.Table.Name)
	}
	for _, a := range t.Args {
		switch a.Op {
		case OConst:
			fmt.Fprintf(&sb, "|c%d:%x", a.W, a.Val)
		case OVar:
			sb.WriteString("|v")
			sb.WriteString(a.Name)
		default:
			fmt.Fprintf(&sb, "|%d", a.id)
		}
	}
	return sb.String()
}

func (c *Ctx) intern(t *Term) *Term {
	k := key(t)
	if e, ok := c.tab[k]; ok {
		return e
	}
	c.nextID++
	t.id = c.nextID
	c.tab[k] = t
	return t
}

// Same reports structural identity (pointer identity for interned terms of the
// same path, value identity for leaves).
func Same(a, b *Term) bool {
	if a == b {
		return true
	}
	if a.Op != b.Op || a.W != b.W {
		return false
	}
	switch a.Op {
	case OConst:
		return a.Val == b.Val
	case OVar:
		return a.Name == b.Name
	}
	if a.id != 0 && b.id != 0 {
		return a.id == b.id
	}
	return false
}

func sx(v uint64, w uint16) int64 {
	if w >= 64 {
		return int64(v)
	}
	sh := 64 - uint(w)
	return int64(v<<sh) >> sh
}

// ---- bit-vector constructors ------------------------------------------------

func (c *Ctx) Bin(op Op, a, b *Term) *Term {
	if a.W != b.W {
		panic(fmt.Sprintf("sym: width mismatch in op %d: %d vs %d", op, a.W, b.W))
	}
	w := a.W
	m := mask(w)
	if a.Op == OConst && b.Op == OConst {
		x, y := a.Val, b.Val
		switch op {
		case OAdd:
			return Const(w, x+y)
		case OSub:
			return Const(w, x-y)
		case OMul:
			return Const(w, x*y)
		case OUDiv:
			if y == 0 {
				return Const(w, m)
			}
			return Const(w, x/y)
		case OURem:
			if y == 0 {
				return Const(w, x)
			}
			return Const(w, x%y)
		case OSDiv:
			if y == 0 {
				if sx(x, w) < 0 {
					return Const(w, 1)
				}
				return Const(w, m)
			}
			sxv, syv := sx(x, w), sx(y, w)
			if syv == -1 {
				return Const(w, uint64(-sxv))
			}
			return Const(w, uint64(sxv/syv))
		case OSRem:
			if y == 0 {
				return Const(w, x)
			}
			sxv, syv := sx(x, w), sx(y, w)
			if syv == -1 {
				return Const(w, 0)
			}
			return Const(w, uint64(sxv%syv))
		case OAnd:
			return Const(w, x&y)
		case OOr:
			return Const(w, x|y)
		case OXor:
			return Const(w, x^y)
		case OShl:
			if y >= uint64(w) {
				return Const(w, 0)
			}
			return Const(w, x<<y)
		case OLShr:
			if y >= uint64(w) {
				return Const(w, 0)
			}
			return Const(w, x>>y)
		case OAShr:
			s := sx(x, w)
			if y >= uint64(w) {
				y = uint64(w) - 1
			}
			return Const(w, uint64(s>>y))
		}
	}
	// algebraic identities
	switch op {
	case OAdd:
		if a.Op == OConst && a.Val == 0 {
			return b
		}
		if b.Op == OConst && b.Val == 0 {
			return a
		}
		if a.Op == OConst { // canonical: constant on the right
			a, b = b, a
		}
	case OSub:
		if b.Op == OConst && b.Val == 0 {
			return a
		}
		if Same(a, b) {
			return Const(w, 0)
		}
	case OMul:
		if a.Op == OConst {
			a, b = b, a
		}
		if b.Op == OConst {
			if b.Val == 0 {
				return Const(w, 0)
			}
			if b.Val == 1 {
				return a
			}
		}
	case OAnd:
		if a.Op == OConst {
			a, b = b, a
		}
		if b.Op == OConst {
			if b.Val == 0 {
				return Const(w, 0)
			}
			if b.Val == m {
				return a
			}
		}
		if Same(a, b) {
			return a
		}
	case OOr:
		if a.Op == OConst {
			a, b = b, a
		}
		if b.Op == OConst {
			if b.Val == 0 {
				return a
			}
			if b.Val == m {
				return Const(w, m)
			}
		}
		if Same(a, b) {
			return a
		}
	case OXor:
		if a.Op == OConst {
			a, b = b, a
		}
		if b.Op == OConst && b.Val == 0 {
			return a
		}
		if Same(a, b) {
			return Const(w, 0)
		}
	case OShl, OLShr, OAShr:
		if b.Op == OConst && b.Val == 0 {
			return a
		}
		if b.Op == OConst && b.Val >= uint64(w) && op != OAShr {
			return Const(w, 0)
		}
		if a.Op == OConst && a.Val == 0 {
			return a
		}
	case OUDiv, OSDiv:
		if b.Op == OConst && b.Val == 1 {
			return a
		}
	}
	return c.intern(&Term{Op: op, W: w, Args: []*Term{a, b}})
}

func (c *Ctx) Not(a *Term) *Term {
	if a.Op == OConst {
		return Const(a.W, ^a.Val)
	}
	if a.Op == ONot {
		return a.Args[0]
	}
	return c.intern(&Term{Op: ONot, W: a.W, Args: []*Term{a}})
}

func (c *Ctx) Neg(a *Term) *Term {
	if a.Op == OConst {
		return Const(a.W, -a.Val)
	}
	return c.intern(&Term{Op: ONeg, W: a.W, Args: []*Term{a}})
}

func (c *Ctx) Concat(hi, lo *Term) *Term {
	w := hi.W + lo.W
	if hi.Op == OConst && lo.Op == OConst && w <= 64 {
		return Const(w, hi.Val<<lo.W|lo.Val)
	}
	return c.intern(&Term{Op: OConcat, W: w, Args: []*Term{hi, lo}})
}

func (c *Ctx) Extract(a *Term, hi, lo uint16) *Term {
	if lo == 0 && hi == a.W-1 {
		return a
	}
	w := hi - lo + 1
	switch a.Op {
	case OConst:
		return Const(w, a.Val>>lo)
	case OZExt, OSExt:
		in := a.Args[0]
		if hi < in.W {
			return c.Extract(in, hi, lo)
		}
		if a.Op == OZExt && lo >= in.W {
			return Const(w, 0)
		}
	case OConcat:
		h, l := a.Args[0], a.Args[1]
		if hi < l.W {
			return c.Extract(l, hi, lo)
		}
		if lo >= l.W {
			return c.Extract(h, hi-l.W, lo-l.W)
		}
	case OExtract:
		return c.Extract(a.Args[0], a.Lo+hi, a.Lo+lo)
	}
	return c.intern(&Term{Op: OExtract, W: w, Hi: hi, Lo: lo, Args: []*Term{a}})
}

func (c *Ctx) ZExt(a *Term, w uint16) *Term {
	if w == a.W {
		return a
	}
	if w < a.W {
		return c.Extract(a, w-1, 0)
	}
	if a.Op == OConst {
		return Const(w, a.Val)
	}
	if a.Op == OZExt {
		return c.ZExt(a.Args[0], w)
	}
	return c.intern(&Term{Op: OZExt, W: w, Args: []*Term{a}})
}

func (c *Ctx) SExt(a *Term, w uint16) *Term {
	if w == a.W {
		return a
	}
	if w < a.W {
		return c.Extract(a, w-1, 0)
	}
	if a.Op == OConst {
		return Const(w, uint64(sx(a.Val, a.W)))
	}
	return c.intern(&Term{Op: OSExt, W: w, Args: []*Term{a}})
}

// ---- comparisons and booleans ----------------------------------------------

func (c *Ctx) Cmp(op Op, a, b *Term) *Term {
	if a.W != b.W {
		panic(fmt.Sprintf("sym: width mismatch in cmp %d: %d vs %d", op, a.W, b.W))
	}
	if a.Op == OConst && b.Op == OConst {
		switch op {
		case OEq:
			return Bool(a.Val == b.Val)
		case OUlt:
			return Bool(a.Val < b.Val)
		case OUle:
			return Bool(a.Val <= b.Val)
		case OSlt:
			return Bool(sx(a.Val, a.W) < sx(b.Val, b.W))
		case OSle:
			return Bool(sx(a.Val, a.W) <= sx(b.Val, b.W))
		}
	}
	if Same(a, b) {
		switch op {
		case OEq, OUle, OSle:
			return True
		default:
			return False
		}
	}
	// comparisons of two zero-extensions of equally wide terms narrow to the inner width
	if a.Op == OZExt && b.Op == OZExt && a.Args[0].W == b.Args[0].W && a.W > a.Args[0].W {
		switch op {
		case OEq, OUlt, OUle, OSlt, OSle:
			inner := op
			if op == OSlt {
				inner = OUlt
			} else if op == OSle {
				inner = OUle
			}
			return c.Cmp(inner, a.Args[0], b.Args[0])
		}
	}
	if op == OEq {
		if a.W == 0 { // boolean equality
			if a.Op == OConst {
				a, b = b, a
			}
			if b.Op == OConst {
				if b.Val == 1 {
					return a
				}
				return c.BNot(a)
			}
		}
		if a.Op == OConst {
			a, b = b, a
		}
		// eq(zext(x), const) with const outside range => false; else narrow
		if b.Op == OConst && a.Op == OZExt {
			in := a.Args[0]
			if b.Val > mask(in.W) {
				return False
			}
			return c.Cmp(OEq, in, Const(in.W, b.Val))
		}
		// eq(ite(c,k1,k2), k) with constants
		if b.Op == OConst && a.Op == OIte && a.Args[1].Op == OConst && a.Args[2].Op == OConst {
			t1 := a.Args[1].Val == b.Val
			t2 := a.Args[2].Val == b.Val
			switch {
			case t1 && t2:
				return True
			case t1:
				return a.Args[0]
			case t2:
				return c.BNot(a.Args[0])
			default:
				return False
			}
		}
	}
	if op == OUlt && b.Op == OConst && b.Val == 0 {
		return False
	}
	if op == OUle && a.Op == OConst && a.Val == 0 {
		return True
	}
	if (op == OUlt || op == OUle) && a.Op == OZExt && b.Op == OConst {
		in := a.Args[0]
		if b.Val > mask(in.W) {
			return True
		}
		return c.Cmp(op, in, Const(in.W, b.Val))
	}
	return c.intern(&Term{Op: op, W: 0, Args: []*Term{a, b}})
}

func (c *Ctx) BNot(a *Term) *Term {
	if a.Op == OConst {
		return Bool(a.Val == 0)
	}
	if a.Op == OBNot {
		return a.Args[0]
	}
	return c.intern(&Term{Op: OBNot, W: 0, Args: []*Term{a}})
}

func (c *Ctx) BAnd(a, b *Term) *Term {
	if a.Op == OConst {
		if a.Val == 1 {
			return b
		}
		return False
	}
	if b.Op == OConst {
		if b.Val == 1 {
			return a
		}
		return False
	}
	if Same(a, b) {
		return a
	}
	return c.intern(&Term{Op: OBAnd, W: 0, Args: []*Term{a, b}})
}

func (c *Ctx) BOr(a, b *Term) *Term {
	if a.Op == OConst {
		if a.Val == 1 {
			return True
		}
		return b
	}
	if b.Op == OConst {
		if b.Val == 1 {
			return True
		}
		return a
	}
	if Same(a, b) {
		return a
	}
	return c.intern(&Term{Op: OBOr, W: 0, Args: []*Term{a, b}})
}

func (c *Ctx) Ite(cond, a, b *Term) *Term {
	if cond.Op == OConst {
		if cond.Val == 1 {
			return a
		}
		return b
	}
	if a.W != b.W {
		panic("sym: ite width mismatch")
	}
	if Same(a, b) {
		return a
	}
	if a.W == 0 {
		if a.IsTrue() && b.IsFalse() {
			return cond
		}
		if a.IsFalse() && b.IsTrue() {
			return c.BNot(cond)
		}
	}
	return c.intern(&Term{Op: OIte, W: a.W, Args: []*Term{cond, a, b}})
}

// BoolToBV turns a Bool into a 1/0 bit-vector of width w.
func (c *Ctx) BoolToBV(b *Term, w uint16) *Term {
	return c.Ite(b, Const(w, 1), Const(w, 0))
}

// ---- floating point ----------------------------------------------------------

func f64(v uint64) float64 { return math.Float64frombits(v) }
func f32(v uint64) float32 { return math.Float32frombits(uint32(v)) }

func fval(t *Term) float64 {
	if t.W == 32 {
		return float64(f32(t.Val))
	}
	return f64(t.Val)
}

func fconst(w uint16, f float64) *Term {
	if w == 32 {
		return Const(32, uint64(math.Float32bits(float32(f))))
	}
	return Const(64, math.Float64bits(f))
}

func (c *Ctx) FCmp(op Op, a, b *Term) *Term {
	if a.Op == OConst && b.Op == OConst {
		x, y := fval(a), fval(b)
		switch op {
		case OFEq:
			return Bool(x == y)
		case OFLt:
			return Bool(x < y)
		case OFLe:
			return Bool(x <= y)
		}
	}
	return c.intern(&Term{Op: op, W: 0, FW: a.W, Args: []*Term{a, b}})
}

func (c *Ctx) FPred(op Op, a *Term) *Term {
	if a.Op == OConst {
		x := fval(a)
		switch op {
		case OFIsNaN:
			return Bool(math.IsNaN(x))
		case OFIsInf:
			return Bool(math.IsInf(x, 0))
		}
	}
	return c.intern(&Term{Op: op, W: 0, FW: a.W, Args: []*Term{a}})
}

func (c *Ctx) FUn(op Op, a *Term) *Term {
	// pure bit operations: exact on bit patterns
	switch op {
	case OFNeg:
		return c.Bin(OXor, a, Const(a.W, uint64(1)<<(a.W-1)))
	case OFAbs:
		return c.Bin(OAnd, a, Const(a.W, mask(a.W)>>1))
	}
	panic("sym: bad FUn")
}

func (c *Ctx) FBin(op Op, a, b *Term) *Term {
	if a.Op == OConst && b.Op == OConst {
		if a.W == 64 {
			x, y := f64(a.Val), f64(b.Val)
			var r float64
			switch op {
			case OFAdd:
				r = x + y
			case OFSub:
				r = x - y
			case OFMul:
				r = x * y
			case OFDiv:
				r = x / y
			}
			return Const(64, math.Float64bits(r))
		}
		x, y := f32(a.Val), f32(b.Val)
		var r float32
		switch op {
		case OFAdd:
			r = x + y
		case OFSub:
			r = x - y
		case OFMul:
			r = x * y
		case OFDiv:
			r = x / y
		}
		return Const(32, uint64(math.Float32bits(r)))
	}
	// x*1 = 1*x = x/1 = x exactly in IEEE-754 (NaN, infinities and signed zeros included)
	one := uint64(0x3ff0000000000000)
	if a.W == 32 {
		one = 0x3f800000
	}
	if (op == OFMul || op == OFDiv) && b.Op == OConst && b.Val == one {
		return a
	}
	if op == OFMul && a.Op == OConst && a.Val == one {
		return b
	}
	return c.intern(&Term{Op: op, W: a.W, FW: a.W, Args: []*Term{a, b}})
}

// IntToFP converts an integer term to float bits of width fw.
func (c *Ctx) IntToFP(a *Term, signed bool, fw uint16) *Term {
	if a.Op == OConst {
		var f float64
		if signed {
			f = float64(sx(a.Val, a.W))
		} else {
			f = float64(a.Val)
		}
		if fw == 32 {
			if signed {
				return Const(32, uint64(math.Float32bits(float32(sx(a.Val, a.W)))))
			}
			return Const(32, uint64(math.Float32bits(float32(a.Val))))
		}
		return Const(64, math.Float64bits(f))
	}
	op := OUIToFP
	if signed {
		op = OSIToFP
	}
	return c.intern(&Term{Op: op, W: fw, FW: fw, Args: []*Term{a}})
}

// FPToInt converts float bits to an integer of width w (truncation). Go leaves
// out-of-range conversions implementation-defined; the caller asserts range if
// it matters. Constants follow amd64 behaviour via Go's own conversion.
func (c *Ctx) FPToInt(a *Term, signed bool, w uint16) *Term {
	if a.Op == OConst {
		f := fval(a)
		if signed {
			return Const(w, uint64(int64(f)))
		}
		return Const(w, uint64(f))
	}
	op := OFPToUI
	if signed {
		op = OFPToSI
	}
	return c.intern(&Term{Op: op, W: w, FW: a.W, Args: []*Term{a}})
}

func (c *Ctx) FPToFP(a *Term, w uint16) *Term {
	if a.W == w {
		return a
	}
	if a.Op == OConst {
		return fconst(w, fval(a))
	}
	return c.intern(&Term{Op: OFPToFP, W: w, FW: a.W, Args: []*Term{a}})
}

// UF builds an uninterpreted function application with result width w (0 = Bool).
func (c *Ctx) UF(name string, w uint16, args ...*Term) *Term {
	t := c.intern(&Term{Op: OUF, W: w, Name: name, Args: args})
	if _, ok := c.UFs[name]; !ok {
		c.UFs[name] = t
	}
	return t
}

// Select reads a constant table at a symbolic index.
func (c *Ctx) Select(tb *Table, idx *Term) *Term {
	if idx.Op == OConst {
		if idx.Val < uint64(len(tb.Vals)) {
			return Const(tb.W, tb.Vals[idx.Val])
		}
	}
	c.Tables[tb.Name] = tb
	return c.intern(&Term{Op: OSelect, W: tb.W, Table: tb, Args: []*Term{idx}})
}

// ---- misc helpers -----------------------------------------------------------

func (c *Ctx) AndAll(ts ...*Term) *Term {
	r := True
	for _, t := range ts {
		r = c.BAnd(r, t)
	}
	return r
}

func (c *Ctx) Implies(a, b *Term) *Term { return c.BOr(c.BNot(a), b) }

// PopCount etc. used by math/bits intrinsics on constants.
func OnesCount(v uint64) int { return bits.OnesCount64(v) }
