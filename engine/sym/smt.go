package sym

import (
	"bufio"
	"fmt"
	"io"
	"os"
	"os/exec"
	"strconv"
	"strings"
	"time"
)

type Result int

const (
	Unsat Result = iota
	Sat
	Unknown
)

func (r Result) String() string { return [...]string{"unsat", "sat", "unknown"}[r] }

// Solver is one SMT solver process driven over a pipe.
type Solver struct {
	Kind      string // "z3", "z3-new", "cvc5"
	cmd       *exec.Cmd
	in        io.WriteCloser
	out       *bufio.Reader
	ctx       *Ctx
	defined   map[int32]bool
	declared  map[string]bool
	tablesDef map[string]bool
	buf       strings.Builder
	TimeoutMs int
	Log       io.Writer // optional transcript

	// statistics
	NSat, NUnsat, NUnknown, NErr int
	Time                         time.Duration
	LastErr                      string
	seq                          int
}

func NewSolver(kind string, ctx *Ctx, timeoutMs int) (*Solver, error) {
	s := &Solver{Kind: kind, ctx: ctx, TimeoutMs: timeoutMs}
	if err := s.start(); err != nil {
		return nil, err
	}
	return s, nil
}

func (s *Solver) start() error {
	var cmd *exec.Cmd
	switch s.Kind {
	case "z3":
		cmd = exec.Command("/usr/bin/z3", "-in")
	case "z3-new":
		cmd = exec.Command("z3-new", "-in")
	case "cvc5":
		cmd = exec.Command("cvc5", "--incremental", "--lang=smt2", "--produce-models", fmt.Sprintf("--tlimit-per=%d", s.TimeoutMs))
	default:
		return fmt.Errorf("unknown solver %q", s.Kind)
	}
	in, err := cmd.StdinPipe()
	if err != nil {
		return err
	}
	out, err := cmd.StdoutPipe()
	if err != nil {
		return err
	}
	cmd.Stderr = os.Stderr
	if err := cmd.Start(); err != nil {
		return err
	}
	s.cmd, s.in, s.out = cmd, in, bufio.NewReaderSize(out, 1<<16)
	s.Reset()
	return nil
}

func (s *Solver) Close() {
	if s.cmd != nil {
		s.in.Close()
		s.cmd.Process.Kill()
		s.cmd.Wait()
		s.cmd = nil
	}
}

func (s *Solver) restart() {
	s.Close()
	if err := s.start(); err != nil {
		panic(err)
	}
}

// Reset forgets everything asserted/declared (start of a new path).
func (s *Solver) Reset() {
	s.defined = map[int32]bool{}
	s.declared = map[string]bool{}
	s.tablesDef = map[string]bool{}
	s.buf.Reset()
	s.buf.WriteString("(reset)\n")
	if s.Kind == "cvc5" {
		s.buf.WriteString("(set-logic ALL)\n")
	} else {
		fmt.Fprintf(&s.buf, "(set-option :timeout %d)\n", s.TimeoutMs)
	}
}

func sortStr(w uint16) string {
	if w == 0 {
		return "Bool"
	}
	return fmt.Sprintf("(_ BitVec %d)", w)
}

func varName(n string) string { return "|" + n + "|" }

func constStr(t *Term) string {
	if t.W == 0 {
		if t.Val == 1 {
			return "true"
		}
		return "false"
	}
	if t.W%4 == 0 {
		return fmt.Sprintf("#x%0*x", int(t.W/4), t.Val)
	}
	return fmt.Sprintf("(_ bv%d %d)", t.Val, t.W)
}

func (s *Solver) ref(t *Term) string {
	switch t.Op {
	case OConst:
		return constStr(t)
	case OVar:
		return varName(t.Name)
	}
	return "t" + strconv.Itoa(int(t.id))
}

func fpw(w uint16) string {
	if w == 32 {
		return "(_ to_fp 8 24)"
	}
	return "(_ to_fp 11 53)"
}

func (s *Solver) fp(t *Term) string { return "(" + fpw(t.W) + " " + s.ref(t) + ")" }

// define makes sure t and everything below it has a definition in the solver.
func (s *Solver) define(t *Term) {
	switch t.Op {
	case OConst:
		return
	case OVar:
		if !s.declared[t.Name] {
			s.declared[t.Name] = true
			fmt.Fprintf(&s.buf, "(declare-const %s %s)\n", varName(t.Name), sortStr(t.W))
		}
		return
	}
	if s.defined[t.id] {
		return
	}
	// iterative post-order to survive deep DAGs
	type fr struct {
		t *Term
		i int
	}
	stack := []fr{{t, 0}}
	for len(stack) > 0 {
		top := &stack[len(stack)-1]
		if top.i < len(top.t.Args) {
			a := top.t.Args[top.i]
			top.i++
			switch a.Op {
			case OConst:
			case OVar:
				if !s.declared[a.Name] {
					s.declared[a.Name] = true
					fmt.Fprintf(&s.buf, "(declare-const %s %s)\n", varName(a.Name), sortStr(a.W))
				}
			default:
				if !s.defined[a.id] {
					stack = append(stack, fr{a, 0})
				}
			}
			continue
		}
		n := top.t
		stack = stack[:len(stack)-1]
		if s.defined[n.id] {
			continue
		}
		s.defined[n.id] = true
		s.emitDef(n)
	}
}

func (s *Solver) emitDef(t *Term) {
	b := &s.buf
	var body string
	a := t.Args
	switch t.Op {
	case OExtract:
		body = fmt.Sprintf("((_ extract %d %d) %s)", t.Hi, t.Lo, s.ref(a[0]))
	case OZExt:
		body = fmt.Sprintf("((_ zero_extend %d) %s)", t.W-a[0].W, s.ref(a[0]))
	case OSExt:
		body = fmt.Sprintf("((_ sign_extend %d) %s)", t.W-a[0].W, s.ref(a[0]))
	case OFEq:
		body = fmt.Sprintf("(fp.eq %s %s)", s.fp(a[0]), s.fp(a[1]))
	case OFLt:
		body = fmt.Sprintf("(fp.lt %s %s)", s.fp(a[0]), s.fp(a[1]))
	case OFLe:
		body = fmt.Sprintf("(fp.leq %s %s)", s.fp(a[0]), s.fp(a[1]))
	case OFIsNaN:
		body = fmt.Sprintf("(fp.isNaN %s)", s.fp(a[0]))
	case OFIsInf:
		body = fmt.Sprintf("(fp.isInfinite %s)", s.fp(a[0]))
	case OSIToFP:
		body = fmt.Sprintf("(fp.to_ieee_bv (%s RNE %s))", fpw(t.W), s.ref(a[0]))
	case OUIToFP:
		body = fmt.Sprintf("(fp.to_ieee_bv (%s RNE %s))", strings.Replace(fpw(t.W), "to_fp", "to_fp_unsigned", 1), s.ref(a[0]))
	case OFPToSI:
		body = fmt.Sprintf("((_ fp.to_sbv %d) RTZ %s)", t.W, s.fp(a[0]))
	case OFPToUI:
		body = fmt.Sprintf("((_ fp.to_ubv %d) RTZ %s)", t.W, s.fp(a[0]))
	case OFPToFP:
		body = fmt.Sprintf("(fp.to_ieee_bv (%s RNE %s))", fpw(t.W), s.fp(a[0]))
	case OFAdd, OFSub, OFMul, OFDiv:
		nm := map[Op]string{OFAdd: "add", OFSub: "sub", OFMul: "mul", OFDiv: "div"}[t.Op]
		if s.ctx.FPExact {
			body = fmt.Sprintf("(fp.to_ieee_bv (fp.%s RNE %s %s))", nm, s.fp(a[0]), s.fp(a[1]))
		} else {
			fn := fmt.Sprintf("vf_f%s%d", nm, t.W)
			if !s.declared[fn] {
				s.declared[fn] = true
				fmt.Fprintf(b, "(declare-fun %s (%s %s) %s)\n", fn, sortStr(t.W), sortStr(t.W), sortStr(t.W))
			}
			body = fmt.Sprintf("(%s %s %s)", fn, s.ref(a[0]), s.ref(a[1]))
		}
	case OUF:
		fn := "uf_" + t.Name
		if !s.declared[fn] {
			s.declared[fn] = true
			fmt.Fprintf(b, "(declare-fun %s (", fn)
			for _, x := range a {
				b.WriteString(sortStr(x.W))
				b.WriteByte(' ')
			}
			fmt.Fprintf(b, ") %s)\n", sortStr(t.W))
		}
		if len(a) == 0 {
			body = fn
		} else {
			var sb strings.Builder
			sb.WriteString("(" + fn)
			for _, x := range a {
				sb.WriteByte(' ')
				sb.WriteString(s.ref(x))
			}
			sb.WriteByte(')')
			body = sb.String()
		}
	case OSelect:
		tb := t.Table
		fn := "tbl_" + tb.Name
		if !s.tablesDef[tb.Name] {
			s.tablesDef[tb.Name] = true
			iw := a[0].W
			fmt.Fprintf(b, "(define-fun %s ((i %s)) %s ", fn, sortStr(iw), sortStr(tb.W))
			for k, v := range tb.Vals {
				if k == len(tb.Vals)-1 {
					b.WriteString(constStr(Const(tb.W, v)))
				} else {
					fmt.Fprintf(b, "(ite (= i %s) %s ", constStr(Const(iw, uint64(k))), constStr(Const(tb.W, v)))
				}
			}
			b.WriteString(strings.Repeat(")", len(tb.Vals)-1))
			b.WriteString(")\n")
		}
		body = fmt.Sprintf("(%s %s)", fn, s.ref(a[0]))
	default:
		nm, ok := opNames[t.Op]
		if !ok {
			panic(fmt.Sprintf("sym: cannot print op %d", t.Op))
		}
		var sb strings.Builder
		sb.WriteString("(" + nm)
		for _, x := range a {
			sb.WriteByte(' ')
			sb.WriteString(s.ref(x))
		}
		sb.WriteByte(')')
		body = sb.String()
	}
	fmt.Fprintf(b, "(define-fun t%d () %s %s)\n", t.id, sortStr(t.W), body)
}

// Assert adds t to the path condition (level 0 of this path).
func (s *Solver) Assert(t *Term) {
	if t.IsTrue() {
		return
	}
	s.define(t)
	fmt.Fprintf(&s.buf, "(assert %s)\n", s.ref(t))
}

// Check decides path-condition ∧ extra. If want is non-nil and the answer is
// sat, the values of those terms are returned.
func (s *Solver) Check(extra *Term, want []*Term) (Result, map[*Term]uint64) {
	if extra != nil && extra.IsFalse() {
		return Unsat, nil
	}
	if extra != nil {
		s.define(extra)
	}
	for _, w := range want {
		s.define(w)
	}
	b := &s.buf
	b.WriteString("(push 1)\n")
	if extra != nil && !extra.IsTrue() {
		fmt.Fprintf(b, "(assert %s)\n", s.ref(extra))
	}
	b.WriteString("(check-sat)\n")
	s.seq++
	m1 := fmt.Sprintf("vfm1_%d", s.seq)
	fmt.Fprintf(b, "(echo \"%s\")\n", m1)
	start := time.Now()
	lines := s.flushUntil(m1)
	res := Unknown
	errLine := ""
	for _, l := range lines {
		switch {
		case l == "sat":
			res = Sat
		case l == "unsat":
			res = Unsat
		case l == "unknown":
			res = Unknown
		case strings.HasPrefix(l, "(error"):
			errLine = l
		}
	}
	var model map[*Term]uint64
	if errLine != "" {
		res = Unknown
		s.NErr++
		s.LastErr = errLine
	} else if res == Sat && len(want) > 0 {
		b.WriteString("(get-value (")
		for _, w := range want {
			b.WriteString(s.ref(w))
			b.WriteByte(' ')
		}
		b.WriteString("))\n")
		m2 := fmt.Sprintf("vfm2_%d", s.seq)
		fmt.Fprintf(b, "(echo \"%s\")\n", m2)
		out := strings.Join(s.flushUntil(m2), " ")
		vals := parseValues(out)
		if len(vals) != len(want) {
			s.NErr++
			s.LastErr = "get-value: " + out
			res = Unknown
		} else {
			model = make(map[*Term]uint64, len(want))
			for i, w := range want {
				model[w] = vals[i]
			}
		}
	}
	b.WriteString("(pop 1)\n")
	s.Time += time.Since(start)
	switch res {
	case Sat:
		s.NSat++
	case Unsat:
		s.NUnsat++
	default:
		s.NUnknown++
	}
	return res, model
}

func (s *Solver) flushUntil(marker string) []string {
	txt := s.buf.String()
	s.buf.Reset()
	if s.Log != nil {
		io.WriteString(s.Log, txt)
	}
	if _, err := io.WriteString(s.in, txt); err != nil {
		s.LastErr = "solver pipe: " + err.Error()
		s.restart()
		return []string{"(error \"solver died\")"}
	}
	var lines []string
	for {
		l, err := s.out.ReadString('\n')
		if err != nil {
			s.LastErr = "solver pipe read: " + err.Error()
			s.restart()
			return append(lines, "(error \"solver died\")")
		}
		l = strings.TrimSpace(l)
		if l == marker || l == "\""+marker+"\"" {
			return lines
		}
		if l != "" {
			lines = append(lines, l)
			if s.Log != nil {
				fmt.Fprintf(s.Log, "; -> %s\n", l)
			}
		}
	}
}

// parseValues extracts the value of each pair of a get-value answer, in order.
func parseValues(out string) []uint64 {
	var vals []uint64
	// answer: ((name val) (name val) ...); val is #x.., #b.., true/false, (_ bvN w)
	depth := 0
	i := 0
	for i < len(out) {
		ch := out[i]
		if depth == 2 && ch != ' ' && ch != ')' {
			// inside a pair: first s-expression is the name, second the value
			i = skipSexp(out, i)
			for i < len(out) && out[i] == ' ' {
				i++
			}
			j := skipSexp(out, i)
			vals = append(vals, parseVal(out[i:j]))
			i = j
			continue
		}
		switch ch {
		case '(':
			depth++
		case ')':
			depth--
		}
		i++
	}
	return vals
}

func skipSexp(s string, i int) int {
	for i < len(s) && s[i] == ' ' {
		i++
	}
	if i >= len(s) {
		return i
	}
	if s[i] == '(' {
		d := 0
		for i < len(s) {
			if s[i] == '(' {
				d++
			} else if s[i] == ')' {
				d--
				if d == 0 {
					return i + 1
				}
			}
			i++
		}
		return i
	}
	if s[i] == '|' {
		j := strings.IndexByte(s[i+1:], '|')
		return i + j + 2
	}
	for i < len(s) && s[i] != ' ' && s[i] != ')' {
		i++
	}
	return i
}

func parseVal(v string) uint64 {
	v = strings.TrimSpace(v)
	switch {
	case v == "true":
		return 1
	case v == "false":
		return 0
	case strings.HasPrefix(v, "#x"):
		n, _ := strconv.ParseUint(v[2:], 16, 64)
		return n
	case strings.HasPrefix(v, "#b"):
		n, _ := strconv.ParseUint(v[2:], 2, 64)
		return n
	case strings.HasPrefix(v, "(_ bv"):
		f := strings.Fields(v[5:])
		n, _ := strconv.ParseUint(f[0], 10, 64)
		return n
	}
	return 0
}
