package sym

import "testing"

func TestSolver(t *testing.T) {
	for _, k := range []string{"z3", "z3-new", "cvc5"} {
		c := NewCtx()
		s, err := NewSolver(k, c, 10000)
		if err != nil {
			t.Fatal(err)
		}
		x := c.Var("x", 64)
		y := c.Var("y#1", 64)
		s.Assert(c.Cmp(OUlt, x, y))
		r, m := s.Check(c.Cmp(OEq, c.Bin(OAdd, x, Const(64, 1)), y), []*Term{x, y})
		if r != Sat || m[x]+1 != m[y] {
			t.Fatalf("%s: %v %v %s", k, r, m, s.LastErr)
		}
		r, _ = s.Check(c.Cmp(OUlt, y, x), nil)
		if r != Unsat {
			t.Fatalf("%s: want unsat got %v %s", k, r, s.LastErr)
		}
		// float: int->fp->cmp
		f := c.IntToFP(x, true, 64)
		r, _ = s.Check(c.FCmp(OFLt, f, Const(64, 0)), []*Term{x})
		if r != Sat && k != "cvc5" {
			t.Fatalf("%s fp: %v %s", k, r, s.LastErr)
		}
		s.Reset()
		c.Reset()
		z := c.Var("z", 8)
		r, m = s.Check(c.Cmp(OEq, c.ZExt(z, 32), Const(32, 77)), []*Term{z})
		if r != Sat || m[z] != 77 {
			t.Fatalf("%s: %v %v %s", k, r, m, s.LastErr)
		}
		s.Close()
	}
}
