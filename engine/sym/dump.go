package sym

import (
	"fmt"
	"strings"
)

// Dump renders a term as an s-expression (debugging).
func Dump(t *Term) string {
	var sb strings.Builder
	dump(&sb, t, 0)
	return sb.String()
}

func dump(sb *strings.Builder, t *Term, d int) {
	switch t.Op {
	case OConst:
		fmt.Fprintf(sb, "%d:%d", t.Val, t.W)
		return
	case OVar:
		sb.WriteString(t.Name)
		return
	}
	if d > 12 {
		sb.WriteString("...")
		return
	}
	nm := opNames[t.Op]
	if nm == "" {
		nm = fmt.Sprintf("op%d", t.Op)
	}
	if t.Op == OExtract {
		nm = fmt.Sprintf("extract[%d:%d]", t.Hi, t.Lo)
	}
	if t.Op == OUF {
		nm = "uf_" + t.Name
	}
	sb.WriteString("(" + nm)
	for _, a := range t.Args {
		sb.WriteByte(' ')
		dump(sb, a, d+1)
	}
	sb.WriteByte(')')
}
