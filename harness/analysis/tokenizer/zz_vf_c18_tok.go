//go:build verif

package tokenizer

import (
	"bytes"
	"unicode"

	"github.com/blugelabs/bluge/analysis"
)

func vfCheckTokens(input []byte, toks analysis.TokenStream, pure bool) {
	last := 0
	for _, t := range toks {
		vfAssert(0 <= t.Start && t.Start <= t.End && t.End <= len(input), "token offsets satisfy 0 <= start <= end <= len(input)")
		vfAssert(t.PositionIncr >= 0, "position increments are non-negative")
		if pure {
			vfAssert(bytes.Equal(t.Term, input[t.Start:t.End]), "a pure tokenizer's term is the input slice at its offsets")
		}
		vfAssert(t.Start >= last, "tokens come in input order")
		last = t.Start
	}
}

func vfSameTokens(a, b analysis.TokenStream) {
	vfAssert(len(a) == len(b), "the same tokens every time (count)")
	for i := range a {
		if i < len(b) {
			vfAssert(a[i].Start == b[i].Start && a[i].End == b[i].End && a[i].PositionIncr == b[i].PositionIncr && bytes.Equal(a[i].Term, b[i].Term), "the same tokens every time")
		}
	}
}

// C18 (narrow subset): the byte/rune-loop tokenizers are total, deterministic
// and offset-correct on every byte string, invalid UTF-8 included.
//
// vf:harness property=C18 cases=L:0..4;kind:0..3 cases.thorough=L:0..5;kind:0..3 maxpaths=600000 unwind=400
// vf:bounds every byte string of length L (quick 0..4, thorough 5); tokenizers: 0 = character tokenizer with an arbitrary rune predicate (a symbolic classification of each decoded rune), 1 = letter tokenizer (unicode.IsLetter), 2 = whitespace tokenizer, 3 = single token
// vf:assume for kinds 1 and 2 input runes are restricted to U+0000..U+00FF (unicode's Latin-1 fast path; the range tables beyond are outside)
func VF_C18_Tokenizers(L int, kind int) {
	input := vfBytes("text", L)
	var tk analysis.Tokenizer
	switch kind {
	case 0:
		n := 0
		cls := make([]bool, L+1)
		for i := range cls {
			cls[i] = vfBool("is-token-rune")
		}
		tk = NewCharacterTokenizer(func(r rune) bool {
			if n >= len(cls) {
				vfFail("predicate called more often than there are bytes")
			}
			n++
			return cls[n-1]
		})
	case 1:
		for _, b := range input {
			vfAssume(b < 0xc4) // runes stay within Latin-1
		}
		tk = NewCharacterTokenizer(unicode.IsLetter)
	case 2:
		for _, b := range input {
			vfAssume(b < 0xc4)
		}
		tk = NewWhitespaceTokenizer()
	case 3:
		tk = NewSingleTokenTokenizer()
	}
	toks := tk.Tokenize(input)
	vfCheckTokens(input, toks, true)
	if kind != 0 {
		vfSameTokens(toks, tk.Tokenize(input))
	}
	if kind == 3 {
		vfAssert(len(toks) == 1 && toks[0].Start == 0 && toks[0].End == L, "the single token spans the whole input")
	}
	// the frequency analysis accepts them: positions are non-decreasing
	pos := 0
	for _, t := range toks {
		pos += t.PositionIncr
	}
	vfAssert(pos >= 0, "positions accumulate without going backwards")
}
