//go:build verif

package char

import "unicode/utf8"

// C18, ASCII folding character filter: for EVERY rune value (the solver decides
// each of the ~1250 case labels of foldToASCII and the default), alone and
// between fixed neighbours (plain ASCII and a rune with the maximal expansion),
// the filter does not panic, is deterministic, and maps one rune to 1..4 runes;
// ASCII passes through unchanged.
//
// vf:harness property=C18 cases=pre:0;post:0|pre:2;post:2 cases.thorough=pre:0..2;post:0..2 maxpaths=600000 unwind=4000
// vf:bounds one arbitrary rune (all of 0..0x10FFFF, surrogates excluded) preceded and followed by nothing, by 'a' or by U+247D (folds to "(10)", the maximal expansion); the whole foldToASCII switch is executed for it
// vf:assume per-rune independence of foldToASCII (the loop body reads one rune and appends to the output) extends the per-rune bound to longer inputs; inputs with several arbitrary runes are outside (the switch has ~1250 labels, two arbitrary runes give ~1.5 million paths)
func VF_C18_ASCIIFolding(pre int, post int) {
	neigh := []string{"", "a", "⑽"}
	c := vfRune("rune")
	vfAssume(c >= 0 && c <= 0x10FFFF && !(c >= 0xD800 && c <= 0xDFFF))
	in := []rune(neigh[pre])
	in = append(in, c)
	in = append(in, []rune(neigh[post])...)
	input := []byte(string(in))
	f := NewASCIIFoldingFilter()
	out := f.Filter(input)
	n := utf8.RuneCount(out)
	grow := func(s string) int {
		if s == "⑽" {
			return 4
		}
		return len(s)
	}
	k := n - grow(neigh[pre]) - grow(neigh[post])
	vfAssert(k >= 1 && k <= 4, "one rune folds to between one and four runes")
	if c < 0x80 {
		vfAssert(k == 1, "ASCII passes through unchanged")
	}
	out2 := f.Filter(input)
	vfAssert(string(out) == string(out2), "the filter is deterministic")
}
