//go:build verif

package cjk

import (
	"unicode/utf8"

	"github.com/blugelabs/bluge/analysis"
)

// C18, CJK width filter: for every pair of runes (all code points; the filter
// folds fullwidth ASCII, halfwidth Katakana, and combines a halfwidth sound
// mark with the preceding Katakana through two lookup tables) the filter does
// not panic, is deterministic, and leaves one or two runes.
//
// vf:harness property=C18 cases=n:1..2 maxpaths=600000 unwind=400
// vf:bounds tokens of one or two arbitrary runes (0..0x10FFFF, surrogates excluded)
// vf:assume longer tokens behave per rune pair (the filter looks at a rune and its predecessor only); the bigram filter and the analyzer around it are outside
func VF_C18_CJKWidth(n int) {
	var rs []rune
	for i := 0; i < n; i++ {
		c := vfRune("rune")
		vfAssume(c >= 0 && c <= 0x10FFFF && !(c >= 0xD800 && c <= 0xDFFF))
		rs = append(rs, c)
	}
	term := []byte(string(rs))
	mk := func() analysis.TokenStream {
		return analysis.TokenStream{&analysis.Token{Term: append([]byte(nil), term...), Start: 0, End: len(term), PositionIncr: 1}}
	}
	f := NewWidthFilter()
	out := f.Filter(mk())
	vfAssert(len(out) == 1, "one token in, one token out")
	k := utf8.RuneCount(out[0].Term)
	vfAssert(k >= 1 && k <= n, "folding keeps or combines runes, it never adds or loses all of them")
	out2 := f.Filter(mk())
	vfAssert(string(out[0].Term) == string(out2[0].Term), "the filter is deterministic")
}
