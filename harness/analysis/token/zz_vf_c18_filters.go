//go:build verif

package token

import (
	"github.com/blugelabs/bluge/analysis"
)

// C18 (narrow subset): the configurable rune-loop token filters never panic on
// any token bytes (invalid UTF-8 included), keep offsets within the input and
// position increments non-negative.
//
// vf:harness property=C18 cases=L:0..3;kind:0..6 cases.thorough=L:0..4;kind:0..6 maxpaths=600000 unwind=400
// vf:bounds one token whose term is every byte string of length L (quick 0..3, thorough 4), as the single-token tokenizer produces it; filters: 0 = length(1,2), 1 = truncate(1), 2 = ngram(1,2), 3 = edge ngram(front,1,2), 4 = reverse, 5 = apostrophe, 6 = unique (two copies of the token)
// vf:assume parameter values fixed as listed; longer inputs and the dictionary / stemmer / normalisation filters are outside
func VF_C18_TokenFilters(L int, kind int) {
	term := vfBytes("term", L)
	mk := func() *analysis.Token {
		return &analysis.Token{Term: append([]byte(nil), term...), Start: 0, End: L, PositionIncr: 1}
	}
	in := analysis.TokenStream{mk()}
	var f analysis.TokenFilter
	switch kind {
	case 0:
		f = NewLengthFilter(1, 2)
	case 1:
		f = NewTruncateTokenFilter(1)
	case 2:
		f = NewNgramFilter(1, 2)
	case 3:
		f = NewEdgeNgramFilter(FRONT, 1, 2)
	case 4:
		f = NewReverseFilter()
	case 5:
		f = NewApostropheFilter()
	case 6:
		f = NewUniqueTermFilter()
		in = append(in, mk())
	}
	out := f.Filter(in)
	for _, t := range out {
		vfAssert(0 <= t.Start && t.Start <= t.End && t.End <= L, "token offsets stay within the text the tokenizer saw")
		vfAssert(t.PositionIncr >= 0, "position increments are non-negative")
	}
	vfAssert(true, "filter returned")
}

// C18, shingle filter behind a filter that leaves position gaps: every output
// token has 0 <= start <= end within the text and a non-negative position
// increment, for every placement of up to three tokens (arbitrary offsets in
// increasing order, arbitrary position gaps of 1..3) and shingle sizes 2..3.
//
// vf:harness property=C18 cases=nt:1..3;max:2..3;orig:0..1 maxpaths=600000 unwind=400
// vf:bounds nt tokens (1..3) with one-byte terms, arbitrary offsets 0 <= start < end <= 64 in increasing order and position increments 1..3 (gaps as a stop filter leaves them); shingle sizes 2..max, with and without the original tokens, separator " ", filler "_"
// vf:assume fixed separator and filler; longer streams are outside
func VF_C18_ShingleOffsets(nt int, max int, orig int) {
	var in analysis.TokenStream
	prevEnd := 0
	for i := 0; i < nt; i++ {
		st, en, inc := vfInt("start"), vfInt("end"), vfInt("incr")
		vfAssume(st >= prevEnd && st < en && en <= 64)
		vfAssume(inc >= 1 && inc <= 3)
		prevEnd = en
		in = append(in, &analysis.Token{Term: []byte{vfByte("term")}, Start: st, End: en, PositionIncr: inc, Type: analysis.AlphaNumeric})
	}
	f := NewShingleFilter(2, max, orig == 1, " ", "_")
	out := f.Filter(in)
	for _, t := range out {
		vfAssert(0 <= t.Start && t.Start <= t.End && t.End <= 64, "token offsets satisfy 0 <= start <= end within the text")
		vfAssert(t.PositionIncr >= 0, "position increments are non-negative")
	}
	vfAssert(true, "filter returned")
}
