//go:build verif

package highlight

import (
	"unicode/utf8"

	"github.com/blugelabs/bluge/search"
)

// html.EscapeString is the identity on text without < > & ' " (assumed below).
func vfNoEscape(s string) string { return s }

// a formatter that records the fragments it is asked to format and delegates
type vfRecordingFormatter struct {
	inner FragmentFormatter
	seen  []*Fragment
}

func (r *vfRecordingFormatter) Format(f *Fragment, tl TermLocations) string {
	r.seen = append(r.seen, f)
	return r.inner.Format(f, tl)
}

const (
	vfBefore = "\x01"
	vfAfter  = "\x02"
)

// C20 no-fault part: highlighting never panics, whatever the bytes of the text
// (invalid UTF-8 included) and whatever the locations (out of range,
// overlapping, unsorted), as long as 0 <= start <= end.
//
// vf:harness property=C20 cases=L:0..3;nloc:0..1;size:1..2;num:1|L:0..1;nloc:2;size:1..2;num:2|L:2;nloc:2;size:1;num:2 cases.thorough=L:0..4;nloc:0..1;size:1..3;num:1|L:0..3;nloc:2;size:1..3;num:1..2|L:0..2;nloc:3;size:1..2;num:2 maxpaths=900000 unwind=400
// vf:replace html.EscapeString vfNoEscape
// vf:bounds every text of L bytes (quick 0..3, thorough 0..4), invalid UTF-8 included; nloc locations (two terms when nloc >= 2) with arbitrary 0 <= start <= end <= L+2 in any order; fragment size 1..2 (3) runes; 1..2 fragments requested; HTML and ANSI formatter
// vf:assume html.EscapeString replaced by the identity (its replacer tables are irrelevant to faults here); negative offsets are not producible by any analyzer and are excluded
func VF_C20_NoFault(L int, nloc int, size int, num int) {
	text := vfBytes("text", L)
	tlm := search.TermLocationMap{}
	for i := 0; i < nloc; i++ {
		s := vfChoice("start", L+3)
		e := s + vfChoice("len", L+3-s)
		term := "t1"
		if i >= 1 {
			term = "t2"
		}
		tlm.AddLocation(term, &search.Location{Pos: i + 1, Start: s, End: e})
	}
	var ff FragmentFormatter = NewHTMLFragmentFormatter()
	if vfBool("ansi") {
		ff = NewANSIFragmentFormatter()
	}
	h := NewSimpleHighlighter(NewSimpleFragmenterSized(size), ff, DefaultSeparator)
	out := h.BestFragments(tlm, text, num)
	vfAssert(len(out) <= num, "at most the requested number of fragments")
	_ = h.BestFragment(tlm, text)
	vfAssert(true, "highlighting returned")
}

// text layouts: widths of the runes of the text
var vfLayouts = [][]int{
	{1, 1, 1, 1}, {2, 1, 1}, {1, 2, 1}, {1, 1, 2}, {2, 2}, {3, 1}, {1, 3}, {1, 1, 1}, {2, 1}, {1, 2}, {1, 1}, {1}, {3}, {4}, {},
	{1, 1, 1, 1, 1}, {2, 1, 2}, {1, 3, 1},
	{3, 3, 1, 3, 3}, {2, 2, 1, 2, 2},
}

// vfValidText builds a valid UTF-8 text with the given rune widths and
// arbitrary content within each width class, free of the marker bytes and of
// HTML-special characters.
func vfValidText(layout []int) ([]byte, []int) {
	var text []byte
	bounds := []int{0}
	for _, w := range layout {
		switch w {
		case 1:
			b := vfByte("ascii")
			vfAssume(b >= 0x20 && b < 0x7f && b != '<' && b != '>' && b != '&' && b != '\'' && b != '"')
			text = append(text, b)
		case 2:
			b0, b1 := vfByte("lead2"), vfByte("cont")
			vfAssume(b0 >= 0xc2 && b0 <= 0xdf && b1 >= 0x80 && b1 <= 0xbf)
			text = append(text, b0, b1)
		case 3:
			b0, b1, b2 := vfByte("lead3"), vfByte("cont"), vfByte("cont")
			vfAssume(b0 >= 0xe1 && b0 <= 0xec && b1 >= 0x80 && b1 <= 0xbf && b2 >= 0x80 && b2 <= 0xbf)
			text = append(text, b0, b1, b2)
		case 4:
			b0, b1, b2, b3 := vfByte("lead4"), vfByte("cont"), vfByte("cont"), vfByte("cont")
			vfAssume(b0 >= 0xf1 && b0 <= 0xf3 && b1 >= 0x80 && b1 <= 0xbf && b2 >= 0x80 && b2 <= 0xbf && b3 >= 0x80 && b3 <= 0xbf)
			text = append(text, b0, b1, b2, b3)
		}
		bounds = append(bounds, len(text))
	}
	return text, bounds
}

// C20 faithfulness: for valid UTF-8 text and locations that are real token
// spans (rune-aligned, non-empty, inside the text), every returned fragment is
// a rune-aligned piece of the text; removing the markers from its formatting
// gives back exactly that piece; every marked span is one location or a merged
// run of overlapping locations; fragments do not overlap and are at most num;
// the best fragment contains a match when one fits the fragment size.
//
// vf:harness property=C20 cases=layout:0..14;nloc:1..2;size:1..3;num:1..2|layout:18..19;nloc:1;size:3;num:1 cases.thorough=layout:0..19;nloc:1..3;size:1..4;num:1..3 maxpaths=900000 unwind=600
// vf:replace html.EscapeString vfNoEscape
// vf:bounds texts of up to 4 runes (thorough 5) in 17 (20) layouts of 1-4 byte runes, arbitrary content within each UTF-8 class (no HTML-special characters, no marker bytes); nloc locations, each any non-empty rune-aligned span, any overlap, given in any order; fragment size 1..3 (4) runes; 1..2 (3) fragments
// vf:assume html.EscapeString replaced by the identity on text free of < > & ' "; markers are the bytes 0x01/0x02 (NewHTMLFragmentFormatterTags)
func VF_C20_Faithful(layout int, nloc int, size int, num int) {
	text, bounds := vfValidText(vfLayouts[layout])
	nr := len(bounds) - 1
	if nr == 0 {
		vfAssert(true, "empty text has no token spans")
		return
	}
	type span struct{ s, e int }
	var spans []span
	tlm := search.TermLocationMap{}
	for i := 0; i < nloc; i++ {
		si := vfChoice("start-rune", nr)
		ei := si + 1 + vfChoice("len-runes", nr-si)
		sp := span{bounds[si], bounds[ei]}
		spans = append(spans, sp)
		term := "t1"
		if i >= 1 {
			term = "t2"
		}
		tlm.AddLocation(term, &search.Location{Pos: i + 1, Start: sp.s, End: sp.e})
	}
	rec := &vfRecordingFormatter{inner: NewHTMLFragmentFormatterTags(vfBefore, vfAfter)}
	h := NewSimpleHighlighter(NewSimpleFragmenterSized(size), rec, "")
	out := h.BestFragments(tlm, text, num)
	vfAssert(len(out) <= num, "at most the requested number of fragments")
	vfAssert(len(out) == len(rec.seen), "one formatted string per chosen fragment")
	vfAssert(len(out) >= 1, "a text with a match yields at least one fragment")
	isBound := func(p int) bool {
		for _, b := range bounds {
			if b == p {
				return true
			}
		}
		return false
	}
	for i, f := range rec.seen {
		vfAssert(0 <= f.Start && f.Start <= f.End && f.End <= len(text), "fragment offsets lie inside the text")
		vfAssert(isBound(f.Start) && isBound(f.End), "fragment offsets fall on rune boundaries")
		vfAssert(utf8.RuneCount(text[f.Start:f.End]) <= size || size < 1, "a fragment is at most the fragment size in runes")
		for j := 0; j < i; j++ {
			vfAssert(!f.Overlaps(rec.seen[j]), "returned fragments do not overlap")
		}
		// strip the markers and compare with the original piece; collect marked spans
		s := out[i]
		pos := f.Start
		open := -1
		ok := true
		for k := 0; k < len(s); k++ {
			c := s[k]
			switch c {
			case vfBefore[0]:
				vfAssert(open < 0, "markers are not nested")
				open = pos
			case vfAfter[0]:
				vfAssert(open >= 0, "a closing marker follows an opening one")
				// the marked span [open,pos) is one location or a merged run of overlapping locations
				one := false
				for _, sp := range spans {
					if sp.s == open && sp.e == pos {
						one = true
					}
				}
				run := false
				for _, a := range spans {
					for _, b := range spans {
						if a.s == open && b.e == pos && b.s >= a.s && b.s < a.e {
							run = true
						}
					}
				}
				vfAssert(one || run, "a marked span is exactly one match or a run of overlapping matches")
				open = -1
			default:
				if pos >= f.End {
					ok = false
				} else {
					vfAssert(c == text[pos], "without the markup the fragment is the original text, byte for byte")
					pos++
				}
			}
		}
		vfAssert(ok && pos == f.End && open < 0, "without the markup the fragment is exactly orig[Start:End]")
	}
	// the best fragment contains a match when some match fits the fragment size
	fits := false
	for _, sp := range spans {
		if utf8.RuneCount(text[sp.s:sp.e]) <= size {
			fits = true
		}
	}
	if fits {
		best := rec.seen[0]
		has := false
		for _, sp := range spans {
			if sp.s >= best.Start && sp.e <= best.End {
				has = true
			}
		}
		vfAssert(has, "the best fragment contains a match when one fits the fragment size")
	}
}

// C20, formatters on overlapping locations: the location list handed to a
// formatter is ordered by start but may still contain overlapping spans
// (MergeOverlapping leaves a later overlapping pair apart when the first
// location overlaps nothing). For every fragment window and every two ordered
// locations — overlapping, nested, touching, partly outside the fragment —
// both formatters do not panic, and removing the markers gives back exactly the
// fragment's bytes.
//
// vf:harness property=C20 cases=L:1..3;ansi:0..1 cases.thorough=L:1..5;ansi:0..1 maxpaths=400000 unwind=400
// vf:bounds text of L bytes (quick 1..3, thorough 5) of plain letters, any fragment window 0 <= fs <= fe <= L, two locations with 0 <= start <= end <= L ordered by start (overlaps and nesting included)
// vf:assume text free of HTML-special characters (html.EscapeString is the identity there) and of the marker strings; locations inside the text (the analyzers never produce others)
func VF_C20_FormatterOverlaps(L int, ansi int) {
	text := make([]byte, L)
	for i := range text {
		text[i] = 'a' + byte(i)
	}
	fs, fe := vfInt("fs"), vfInt("fe")
	vfAssume(0 <= fs && fs <= fe && fe <= L)
	var tls TermLocations
	prev := 0
	for i := 0; i < 2; i++ {
		st, en := vfInt("start"), vfInt("end")
		vfAssume(prev <= st && st <= en && en <= L)
		prev = st
		tls = append(tls, &TermLocation{Term: "t", Pos: i + 1, Start: st, End: en})
	}
	f := &Fragment{Orig: text, Start: fs, End: fe}
	var out string
	var before, after string
	if ansi == 1 {
		out = NewANSIFragmentFormatterColor("<").Format(f, tls)
		before, after = "<", "\x1b[0m"
	} else {
		out = NewHTMLFragmentFormatterTags("<", ">").Format(f, tls)
		before, after = "<", ">"
	}
	// strip the markers
	var plain []byte
	for i := 0; i < len(out); {
		if len(out)-i >= len(before) && out[i:i+len(before)] == before {
			i += len(before)
			continue
		}
		if len(out)-i >= len(after) && out[i:i+len(after)] == after {
			i += len(after)
			continue
		}
		plain = append(plain, out[i])
		i++
	}
	vfAssert(string(plain) == string(text[fs:fe]), "without the markers the formatted fragment is exactly the fragment's text")
}
