//go:build verif

package searcher

import (
	"bytes"
	"math"

	segment "github.com/blugelabs/bluge_segment_api"

	"github.com/blugelabs/bluge/numeric"
	"github.com/blugelabs/bluge/search"
)

// ---- incrementBytes: the same-length lexicographic successor -------------------

// vf:harness property=C10 cases=n:1..11
// vf:bounds term length n concrete 1..11; all byte values; in != 0xFF..FF
func VF_C10_IncrementSuccessor(n int) {
	in := vfBytes("in", n)
	t := vfBytes("t", n)
	allFF := true
	for i := range in {
		allFF = vfAll(allFF, in[i] == 0xff)
	}
	vfAssume(!allFF)
	saved := make([]byte, n)
	copy(saved, in)
	out := incrementBytes(in)
	vfAssert(len(out) == n, "successor has the same length")
	vfAssert(bytes.Equal(in, saved), "argument is not modified")
	vfAssert(bytes.Compare(in, out) < 0, "successor is larger")
	// no term of this length lies strictly between in and out
	vfAssert((bytes.Compare(in, t) < 0) == (bytes.Compare(out, t) <= 0), "no term strictly between a term and its successor")
	out[0] ^= 0x55
	vfAssert(bytes.Equal(in, saved), "result does not alias the argument")
}

// ---- termRange.Enumerate by loop cut ---------------------------------------------

var vfEnum struct {
	n          int
	start, end []byte
	next       []byte // arbitrary loop-head value of `next`
	t          []byte // Skolem term
	ft         bool   // filter(t)
	other      bool   // filter(anything else), arbitrary
	nilFilter  bool
	stepSeen   bool
}

func vfEnumFilter(term []byte) bool {
	st := &vfEnum
	eq := bytes.Equal(term, st.t)
	return vfAny(vfAll(eq, st.ft), vfAll(!eq, st.other))
}

func vfEnumHook(phase int, names []string, phis []interface{}) []interface{} {
	st := &vfEnum
	if phase == 0 {
		out := make([]interface{}, len(phis))
		for i, nm := range names {
			switch nm {
			case "next":
				out[i] = st.next
			case "rv":
				out[i] = [][]byte(nil)
			default:
				vfFail("unexpected loop variable " + nm)
			}
		}
		return out
	}
	var next2 []byte
	var rv2 [][]byte
	for i, nm := range names {
		switch nm {
		case "next":
			next2 = phis[i].([]byte)
		case "rv":
			rv2 = phis[i].([][]byte)
		}
	}
	st.stepSeen = true
	// the body ran, so next <= end held
	vfAssert(len(next2) == st.n, "next keeps its length")
	vfAssert(len(rv2) <= 1, "at most one term appended per iteration")
	accept := st.ft
	if st.nilFilter {
		accept = true
	}
	appendedT := false
	if len(rv2) == 1 {
		vfAssert(bytes.Equal(rv2[0], st.next), "the appended term is the current one")
		appendedT = bytes.Equal(rv2[0], st.t)
	}
	vfAssert(appendedT == vfAll(bytes.Equal(st.next, st.t), accept), "step: t appended now iff t is the current term and the filter accepts it")
	vfAssert((bytes.Compare(st.next, st.t) < 0) == (bytes.Compare(next2, st.t) <= 0), "step: next advances to the immediate successor (nothing skipped)")
	if len(rv2) == 1 {
		next2[len(next2)-1] ^= 0x55
		vfAssert(bytes.Equal(rv2[0], st.next), "appended term does not alias the advancing cursor")
	}
	return nil
}

// One iteration of the real Enumerate loop from an arbitrary cursor position:
// together with the exit clause this gives  t in result  <=>  start <= t <= end
// and filter(t)  for every term t of the range's length.
//
// vf:harness property=C10 cases=n:2..11;nilf:0..1
// vf:cut (*github.com/blugelabs/bluge/search/searcher.termRange).Enumerate vfEnumHook
// vf:bounds term length n concrete 2..11 (all lengths the codec produces); all byte values; end[0] != 0xFF (real ranges start with 0x20+shift <= 0x5f); filter arbitrary; iterations unbounded (cut)
func VF_C10_EnumerateStep(n int, nilf int) {
	st := &vfEnum
	st.n = n
	st.start = vfBytes("start", n)
	st.end = vfBytes("end", n)
	st.next = vfBytes("next", n)
	st.t = vfBytes("t", n)
	st.ft = vfBool("ft")
	st.other = vfBool("other")
	st.nilFilter = nilf == 1
	st.stepSeen = false
	vfAssume(st.end[0] != 0xff)
	vfAssume(bytes.Compare(st.start, st.next) <= 0)
	tr := &termRange{startTerm: st.start, endTerm: st.end}
	var res [][]byte
	if st.nilFilter {
		res = tr.Enumerate(nil)
	} else {
		res = tr.Enumerate(vfEnumFilter)
	}
	// exit: the cursor is beyond end and nothing more is appended
	vfAssert(!st.stepSeen, "exit path ran no further iteration")
	vfAssert(bytes.Compare(st.next, st.end) > 0, "loop exits only when the cursor is past the end term")
	vfAssert(len(res) == 0, "nothing is appended after the cursor passed the end term")
}

// termRanges.Enumerate concatenates the per-range results in order.
//
// vf:harness property=C10
// vf:bounds two ranges of 2-byte terms whose start is within 2 of the end; filter nil
func VF_C10_EnumerateConcat() {
	a := vfBytes("a", 2)
	b := vfBytes("b", 2)
	vfAssume(a[0] != 0xff)
	vfAssume(b[0] != 0xff)
	ea := incrementBytes(a)
	trs := termRanges{&termRange{startTerm: a, endTerm: ea}, &termRange{startTerm: b, endTerm: b}}
	res := trs.Enumerate(nil)
	vfAssert(len(res) == 3, "2 + 1 terms")
	vfAssert(bytes.Equal(res[0], a), "first term")
	vfAssert(bytes.Equal(res[1], ea), "second term")
	vfAssert(bytes.Equal(res[2], b), "third term")
}

// ---- bound adjustment in NewNumericRangeSearcher --------------------------------------

type vfDict struct{}

func (vfDict) Contains(key []byte) (bool, error) { return false, nil }
func (vfDict) Close() error                      { return nil }

type vfReader struct{}

func (vfReader) DocumentValueReader(fields []string) (segment.DocumentValueReader, error) {
	return nil, nil
}
func (vfReader) VisitStoredFields(number uint64, visitor segment.StoredFieldVisitor) error {
	return nil
}
func (vfReader) CollectionStats(field string) (segment.CollectionStats, error) { return nil, nil }
func (vfReader) DictionaryLookup(field string) (segment.DictionaryLookup, error) {
	return vfDict{}, nil
}
func (vfReader) DictionaryIterator(field string, automaton segment.Automaton, start, end []byte) (segment.DictionaryIterator, error) {
	return nil, nil
}
func (vfReader) PostingsIterator(term []byte, field string, includeFreq, includeNorm, includeTermVectors bool) (segment.PostingsIterator, error) {
	return nil, nil
}
func (vfReader) Close() error { return nil }

var vfBounds struct {
	called   int
	min, max int64
}

func vfCaptureSplit(minBound, maxBound int64, precisionStep uint) termRanges {
	vfBounds.called++
	vfBounds.min, vfBounds.max = minBound, maxBound
	vfAssert(precisionStep == 4, "precision step matches the index side (4)")
	return nil
}

func vfNoMultiTerm(indexReader search.Reader, terms [][]byte, field string, boost float64, scorer search.Scorer,
	compScorer search.CompositeScorer, options search.SearcherOptions, limit bool) (search.Searcher, error) {
	return nil, nil
}

// total order on non-NaN floats with -0 immediately below +0
func vfTotLess(a, b float64) bool {
	return vfAny(a < b, vfAll(math.Float64bits(a) == 0x8000000000000000, math.Float64bits(b) == 0))
}

// The closed int64 interval handed to the range splitter is exactly the float
// interval: for every non-NaN value v, enc(v) in [lo,hi] iff v lies in the
// interval (ends open, closed, or unbounded when +-Inf).
//
// vf:harness property=C10 cases=incMin:0..1;incMax:0..1
// vf:replace github.com/blugelabs/bluge/search/searcher.splitInt64Range vfCaptureSplit
// vf:replace github.com/blugelabs/bluge/search/searcher.NewMultiTermSearcherBytes vfNoMultiTerm
// vf:bounds min, max, v: all non-NaN float64 (incl. +-Inf, +-0, subnormals); inclusive flags all four combinations
// vf:assume splitInt64Range replaced by a capture stub here (its own exactness is VF_C10_Split*); dictionary and multi-term searcher stubbed
func VF_C10_RangeBounds(incMin, incMax int) {
	min, max, v := vfFloat64("min"), vfFloat64("max"), vfFloat64("v")
	vfAssume(!math.IsNaN(min))
	vfAssume(!math.IsNaN(max))
	vfAssume(!math.IsNaN(v))
	vfBounds.called = 0
	_, err := NewNumericRangeSearcher(vfReader{}, min, max, incMin == 1, incMax == 1, "f", 1.0, nil, nil, search.SearcherOptions{})
	vfAssert(err == nil, "no error")
	vfAssert(vfBounds.called == 1, "splitter called once")
	ev := numeric.Float64ToInt64(v)
	matched := vfAll(vfBounds.min <= ev, ev <= vfBounds.max)
	var lowerOK, upperOK bool
	switch {
	case math.IsInf(min, -1):
		lowerOK = true
	case incMin == 1:
		lowerOK = !vfTotLess(v, min)
	default:
		lowerOK = vfTotLess(min, v)
	}
	switch {
	case math.IsInf(max, 1):
		upperOK = true
	case incMax == 1:
		upperOK = !vfTotLess(max, v)
	default:
		upperOK = vfTotLess(v, max)
	}
	vfAssert(matched == vfAll(lowerOK, upperOK), "int64 interval == float interval")
}
