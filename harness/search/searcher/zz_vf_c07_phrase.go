//go:build verif

package searcher

import "github.com/blugelabs/bluge/search"

// C07, phrase matching kernel: findPhrasePaths (the function that decides
// whether a document's term locations satisfy a phrase with slop) against the
// meaning its own documentation states — a phrase of k positions matches iff k
// pairwise different token occurrences can be chosen, the i-th carrying a term
// allowed at phrase position i, such that the displacements
// |pos_i - (pos_{i-1}+1)| add up to at most the slop. Token positions are
// arbitrary increasing integers (gaps as left by stop-word removal), decided by
// the solver; every returned path is checked for validity as well.
//
// vf:harness property=C07 cases=doc:0..7;phrase:0..7;slop:0..2 cases.thorough=doc:0..26;phrase:0..7;slop:0..3 maxpaths=400000 unwind=400
// vf:bounds documents of three tokens over {a,b} (thorough {a,b,x}, 27 patterns) at arbitrary strictly increasing positions 1 <= p1 < p2 < p3 < 2^20; phrases of three positions over {a,b}; slop 0..2 (3)
// vf:assume the term-location map stands for what the term-vector readers deliver; phrase positions with several alternative terms (multi-phrase) and empty place-holders are outside this harness
func VF_C07_PhrasePaths(doc int, phrase int, slop int) {
	alphabet := []string{"a", "b", "x"}
	var toks [3]string
	d := doc
	for i := 0; i < 3; i++ {
		if doc < 8 {
			toks[i] = alphabet[d%2]
			d /= 2
		} else {
			toks[i] = alphabet[d%3]
			d /= 3
		}
	}
	var ph [3]string
	q := phrase
	for i := 0; i < 3; i++ {
		ph[i] = alphabet[q%2]
		q /= 2
	}
	var pos [3]int
	for i := range pos {
		pos[i] = vfInt("pos")
	}
	vfAssume(pos[0] >= 1 && pos[0] < pos[1] && pos[1] < pos[2] && pos[2] < 1<<20)
	tlm := search.TermLocationMap{}
	locs := make([]*search.Location, 3)
	for i := range toks {
		locs[i] = &search.Location{Pos: pos[i]}
		tlm.AddLocation(toks[i], locs[i])
	}
	paths := findPhrasePaths(0, [][]string{{ph[0]}, {ph[1]}, {ph[2]}}, tlm, nil, slop, nil)

	// reference: some choice of three different occurrences with matching terms within the slop
	abs := func(x int) int { return int(vfIte64(x < 0, uint64(-x), uint64(x))) }
	var alts []bool
	for i := 0; i < 3; i++ {
		for j := 0; j < 3; j++ {
			for k := 0; k < 3; k++ {
				if i == j || j == k || i == k {
					continue
				}
				if toks[i] != ph[0] || toks[j] != ph[1] || toks[k] != ph[2] {
					continue
				}
				cost := abs(pos[i]+1-pos[j]) + abs(pos[j]+1-pos[k])
				alts = append(alts, cost <= slop)
			}
		}
	}
	want := vfAny(alts...)
	vfAssert((len(paths) > 0) == want, "the phrase matches iff three different occurrences with the phrase's terms exist within the slop")
	for _, p := range paths {
		vfAssert(len(p) == 3, "a path has one part per phrase position")
		if len(p) != 3 {
			continue
		}
		cost := 0
		for i := range p {
			vfAssert(p[i].term == ph[i], "each part carries the phrase's term at its position")
			found := false
			for _, l := range tlm[p[i].term] {
				if l == p[i].loc {
					found = true
				}
			}
			vfAssert(found, "each part is an occurrence of its term in the document")
			for j := 0; j < i; j++ {
				vfAssert(p[j].loc != p[i].loc, "no token occurrence fills two phrase positions")
			}
			if i > 0 {
				cost += abs(p[i-1].loc.Pos + 1 - p[i].loc.Pos)
			}
		}
		vfAssert(cost <= slop, "the displacements of a returned path add up to at most the slop")
	}
}
