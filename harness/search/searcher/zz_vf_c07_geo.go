//go:build verif

package searcher

import (
	"github.com/blugelabs/bluge/numeric/geo"
	"github.com/blugelabs/bluge/search"
)

type vfGeoBox struct{ minLon, minLat, maxLon, maxLat float64 }

var vfGeoBoxes []vfGeoBox

// stands in for NewGeoBoundingBoxSearcher: records the rectangle it is asked for
func vfRecordGeoBox(indexReader search.Reader, minLon, minLat, maxLon, maxLat float64, field string, boost float64,
	scorer search.Scorer, compScorer search.CompositeScorer, options search.SearcherOptions,
	checkBoundaries bool, precisionStep uint) (search.Searcher, error) {
	vfGeoBoxes = append(vfGeoBoxes, vfGeoBox{minLon, minLat, maxLon, maxLat})
	return &vfLeaf{}, nil
}

// C07, geo distance / bounding box: the rectangle handed to boxSearcher is
// searched as one rectangle, or, when it crosses the date line, as exactly the
// two rectangles west and east of it — for every corner pair and every point,
// "some searched rectangle contains the point" equals the meaning of the
// request. Containment is the library's own geo.BoundingBoxContains (tolerance
// included), so the statement holds for every interpretation of the float
// subtraction inside it.
//
// vf:harness property=C07
// vf:replace github.com/blugelabs/bluge/search/searcher.NewGeoBoundingBoxSearcher vfRecordGeoBox
// vf:bounds all float64 corner coordinates and points that are not NaN (no range restriction); both branches (crossing / not crossing the date line)
// vf:assume float subtraction and Abs inside geo.compareGeo uninterpreted (equal arguments give equal results); the per-rectangle searcher (ComputeGeoRange, term enumeration, boundary filter) is replaced by a recorder and is outside; RectFromPointDistance's trigonometry is outside
func VF_C07_GeoBoxSplit() {
	tlLon, tlLat, brLon, brLat := vfFloat64("tlLon"), vfFloat64("tlLat"), vfFloat64("brLon"), vfFloat64("brLat")
	lon, lat := vfFloat64("lon"), vfFloat64("lat")
	vfAssume(tlLon == tlLon && tlLat == tlLat && brLon == brLon && brLat == brLat && lon == lon && lat == lat)
	vfGeoBoxes = nil
	s, err := boxSearcher(nil, tlLon, tlLat, brLon, brLat, "f", 1, nil, nil, search.SearcherOptions{}, true, 1)
	vfAssert(err == nil && s != nil, "a box searcher is built")
	got := false
	for _, b := range vfGeoBoxes {
		if geo.BoundingBoxContains(lon, lat, b.minLon, b.minLat, b.maxLon, b.maxLat) {
			got = true
		}
	}
	var want bool
	if brLon < tlLon {
		want = geo.BoundingBoxContains(lon, lat, -180, brLat, brLon, tlLat) || geo.BoundingBoxContains(lon, lat, tlLon, brLat, 180, tlLat)
		vfAssert(len(vfGeoBoxes) == 2, "a rectangle crossing the date line is searched as two rectangles")
	} else {
		want = geo.BoundingBoxContains(lon, lat, tlLon, brLat, brLon, tlLat)
		vfAssert(len(vfGeoBoxes) == 1, "a rectangle not crossing the date line is searched as one rectangle")
	}
	vfAssert(got == want, "the searched rectangles contain exactly the points of the requested rectangle")
}
