//go:build verif

package searcher

import (
	"github.com/blugelabs/bluge/search"
	"github.com/blugelabs/bluge/search/similarity"
)

// vfLeaf is a model leaf searcher: a strictly increasing list of symbolic
// document numbers with the reference Next/Advance of the Searcher contract.
type vfLeaf struct {
	nums []uint64
	pos  int
}

func vfNewLeaf(name string, n int) *vfLeaf {
	l := &vfLeaf{}
	for i := 0; i < n; i++ {
		// the searchers only compare and copy document numbers, so every order
		// pattern of the (at most nine) numbers involved is realised by bytes
		v := uint64(vfByte(name))
		if i > 0 {
			vfAssume(l.nums[i-1] < v)
		}
		l.nums = append(l.nums, v)
	}
	return l
}

func (l *vfLeaf) Next(ctx *search.Context) (*search.DocumentMatch, error) {
	if l.pos >= len(l.nums) {
		return nil, nil
	}
	d := ctx.DocumentMatchPool.Get()
	d.Number = l.nums[l.pos]
	d.Score = 1
	l.pos++
	return d, nil
}

func (l *vfLeaf) Advance(ctx *search.Context, number uint64) (*search.DocumentMatch, error) {
	for l.pos < len(l.nums) && l.nums[l.pos] < number {
		l.pos++
	}
	return l.Next(ctx)
}

func (l *vfLeaf) Close() error               { return nil }
func (l *vfLeaf) Count() uint64              { return uint64(len(l.nums)) }
func (l *vfLeaf) Min() int                   { return 0 }
func (l *vfLeaf) Size() int                  { return 8 * len(l.nums) }
func (l *vfLeaf) DocumentMatchPoolSize() int { return 1 }

func (l *vfLeaf) has(d uint64) bool {
	m := false
	for _, x := range l.nums {
		m = vfAny(m, x == d)
	}
	return m
}

func vfB2I(b bool) int {
	if b {
		return 1
	}
	return 0
}

// vfShape builds one composite searcher over the leaves and returns it with
// its documented meaning as a predicate over document numbers.
func vfShape(shape int, a, b, c *vfLeaf, min int) (search.Searcher, func(d uint64) bool) {
	opts := search.SearcherOptions{}
	sc := func() search.CompositeScorer { return similarity.NewCompositeSumScorer() }
	must := func(xs ...search.Searcher) search.Searcher {
		s, err := NewConjunctionSearcher(nil, xs, sc(), opts)
		vfAssert(err == nil, "conjunction builds")
		return s
	}
	should := func(m int, xs ...search.Searcher) search.Searcher {
		s, err := NewDisjunctionSearcher(nil, xs, m, sc(), opts)
		vfAssert(err == nil, "disjunction builds")
		return s
	}
	switch shape {
	case 0: // a AND b
		return must(a, b), func(d uint64) bool { return vfAll(a.has(d), b.has(d)) }
	case 1: // a AND b AND c
		return must(a, b, c), func(d uint64) bool { return vfAll(a.has(d), b.has(d), c.has(d)) }
	case 2: // at least min of (a, b)
		return should(min, a, b), func(d uint64) bool {
			return vfB2I(a.has(d))+vfB2I(b.has(d)) >= vfMax1(min)
		}
	case 3: // at least min of (a, b, c)
		return should(min, a, b, c), func(d uint64) bool {
			return vfB2I(a.has(d))+vfB2I(b.has(d))+vfB2I(c.has(d)) >= vfMax1(min)
		}
	case 4: // must a, should b (optional unless min>0), must-not c
		bs, err := NewBooleanSearcher(must(a), should(min, b), should(0, c), sc(), opts)
		vfAssert(err == nil, "boolean builds")
		return bs, func(d uint64) bool {
			// the single should clause must supply min matches: impossible for min >= 2
			return vfAll(a.has(d), !c.has(d), vfB2I(b.has(d)) >= min)
		}
	case 5: // should-only (a, b) with must-not c
		bs, err := NewBooleanSearcher(nil, should(min, a, b), should(0, c), sc(), opts)
		vfAssert(err == nil, "boolean builds")
		return bs, func(d uint64) bool {
			return vfAll(vfB2I(a.has(d))+vfB2I(b.has(d)) >= vfMax1(min), !c.has(d))
		}
	case 6: // a AND (b AND NOT c): a boolean nested under a conjunction
		inner, err := NewBooleanSearcher(must(b), nil, should(0, c), sc(), opts)
		vfAssert(err == nil, "boolean builds")
		return must(a, inner), func(d uint64) bool { return vfAll(a.has(d), b.has(d), !c.has(d)) }
	case 7: // (a AND b) OR c
		return should(1, must(a, b), c), func(d uint64) bool { return vfAny(vfAll(a.has(d), b.has(d)), c.has(d)) }
	case 8: // must a, must-not (b AND c)
		bs, err := NewBooleanSearcher(must(a), nil, should(0, must(b, c)), sc(), opts)
		vfAssert(err == nil, "boolean builds")
		return bs, func(d uint64) bool { return vfAll(a.has(d), !vfAll(b.has(d), c.has(d))) }
	}
	vfFail("unknown shape")
	return nil, nil
}

func vfMax1(m int) int {
	if m < 1 {
		return 1
	}
	return m
}

// C07 boolean structure: for every assignment of document numbers to the leaf
// postings and every forward driver sequence of Next/Advance calls, the real
// conjunction / disjunction (slice and heap) / boolean searchers return exactly
// the documents their meaning selects, in increasing order, none twice, and
// never hand back a match object that is still held by the caller.
//
// vf:harness property=C07 cases=shape:0,1,6,8;min:0;np:2;heap:0;calls:3|shape:7;min:0;np:2;heap:0..1;calls:3|shape:2;min:0..2;np:2;heap:0..1;calls:2|shape:2;min:2;np:2;heap:0;calls:3|shape:4;min:0..1;np:2;heap:0;calls:3|shape:3;min:2;np:2;heap:0..1;calls:2|shape:5;min:1;np:2;heap:0;calls:2 cases.thorough=shape:0..8;min:0..3;np:2;heap:0..1;calls:3 maxpaths=900000 unwind=400
// vf:bounds 9 query shapes (and/or/min-should/must-not, depth <= 2, <= 3 clauses); each leaf has np = 2 postings with arbitrary strictly increasing document numbers drawn from 0..255 (overlaps between leaves arbitrary; the searchers only compare and copy document numbers, so every order pattern of the at most nine numbers and the target is covered); disjunctions as slice searcher and as heap searcher (takeover threshold lowered through the package variable); driver of `calls` steps, each Next or Advance(t) with an arbitrary forward target t (greater than the last returned document)
// vf:assume leaf searchers are model posting lists obeying the Searcher contract (real term searchers over postings are C08's PostingsAcrossSegments); constant leaf scores; Advance targets move forward, as every caller in the library does
func VF_C07_BooleanStructure(shape int, min int, np int, heap int, calls int) {
	if heap == 1 {
		DisjunctionHeapTakeover = 1 // every disjunction becomes a heap searcher
	} else {
		DisjunctionHeapTakeover = 10
	}
	if (shape == 0 || shape == 1 || shape == 6 || shape == 7 || shape == 8) && min > 0 {
		vfAssert(true, "min is not a parameter of this shape")
		return
	}
	if shape == 0 && heap == 1 {
		vfAssert(true, "no disjunction in this shape")
		return
	}
	a, b, c := vfNewLeaf("a", np), vfNewLeaf("b", np), vfNewLeaf("c", np)
	s, match := vfShape(shape, a, b, c, min)
	ctx := search.NewSearchContext(s.DocumentMatchPoolSize()+calls+1, 0)
	var all []uint64
	all = append(all, a.nums...)
	all = append(all, b.nums...)
	all = append(all, c.nums...)

	last := uint64(0)
	started := false
	var held []*search.DocumentMatch
	var heldNum []uint64
	for k := 0; k < calls; k++ {
		target := uint64(0)
		// every caller in the library positions a searcher with Next before it
		// ever calls Advance (conjunction/disjunction/boolean initSearchers, the
		// collectors); Advance as the very first call is outside the driver (on
		// the pinned tree it loses the first posting of a required should
		// clause — recorded as an observation in DESIGN.md, not reachable
		// through the public query types)
		isAdvance := k > 0 && vfBool("advance")
		var got *search.DocumentMatch
		var err error
		if isAdvance {
			target = uint64(vfByte("target"))
			if started {
				vfAssume(target > last)
			}
			got, err = s.Advance(ctx, target)
		} else {
			got, err = s.Next(ctx)
		}
		vfAssert(err == nil, "no error")
		// reference: the smallest matching candidate beyond the last result and at or beyond the target
		found := false
		best := uint64(0)
		for _, d := range all {
			ok := vfAll(match(d), d >= target, vfAny(!started, d > last))
			better := vfAll(ok, vfAny(!found, d < best))
			best = vfIte64(better, d, best)
			found = vfAny(found, ok)
		}
		if got == nil {
			vfAssert(!found, "the searcher is exhausted only when no matching document is left")
			break
		}
		vfAssert(found, "a returned document matches the query's meaning and lies ahead")
		vfAssert(got.Number == best, "the returned document is the next one the query's meaning selects (none missed, none extra, none twice)")
		last = got.Number
		started = true
		held = append(held, got)
		heldNum = append(heldNum, got.Number)
	}
	for i, d := range held {
		vfAssert(d.Number == heldNum[i], "a match handed to the caller is not recycled while the caller holds it")
		for j := 0; j < i; j++ {
			vfAssert(held[j] != d, "two results are never the same match object")
		}
	}
	_ = s.Close()
}
