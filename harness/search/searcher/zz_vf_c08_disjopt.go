//go:build verif

package searcher

import (
	"github.com/blugelabs/bluge/search"
	"github.com/blugelabs/bluge/search/similarity"
	segment "github.com/blugelabs/bluge_segment_api"
)

// posting lists that offer the "unadorned disjunction" optimisation the way the
// index does: every list hands its documents to a shared context whose Finish
// returns one iterator over the union (documents matching at least one list).
type vfOptPosting struct{ num uint64 }

func (p *vfOptPosting) Number() uint64               { return p.num }
func (p *vfOptPosting) SetNumber(n uint64)           { p.num = n }
func (p *vfOptPosting) Frequency() int               { return 1 }
func (p *vfOptPosting) Norm() float64                { return 1 }
func (p *vfOptPosting) Locations() []segment.Location { return nil }
func (p *vfOptPosting) Size() int                    { return 8 }

type vfOptList struct {
	nums []uint64
	pos  int
}

func (l *vfOptList) Next() (segment.Posting, error) {
	if l.pos >= len(l.nums) {
		return nil, nil
	}
	l.pos++
	return &vfOptPosting{l.nums[l.pos-1]}, nil
}
func (l *vfOptList) Advance(n uint64) (segment.Posting, error) {
	for l.pos < len(l.nums) && l.nums[l.pos] < n {
		l.pos++
	}
	return l.Next()
}
func (l *vfOptList) Size() int     { return 8 * len(l.nums) }
func (l *vfOptList) Empty() bool   { return len(l.nums) == 0 }
func (l *vfOptList) Count() uint64 { return uint64(len(l.nums)) }
func (l *vfOptList) Close() error  { return nil }

type vfOptCtx struct {
	lists []*vfOptList
	ndocs int
}

var vfOptUsed int

func (l *vfOptList) Optimize(kind string, octx segment.OptimizableContext) (segment.OptimizableContext, error) {
	if kind != "disjunction:unadorned" {
		return nil, nil
	}
	c, _ := octx.(*vfOptCtx)
	if c == nil {
		c = &vfOptCtx{}
	}
	c.lists = append(c.lists, l)
	return c, nil
}

func (c *vfOptCtx) Finish() (segment.PostingsIterator, error) {
	vfOptUsed++
	u := &vfOptList{}
	for d := uint64(1); d <= 8; d++ {
		in := false
		for _, l := range c.lists {
			for _, n := range l.nums {
				if n == d {
					in = true
				}
			}
		}
		if in {
			u.nums = append(u.nums, d)
		}
	}
	return u, nil
}

// C08 "same match set with optimisations on, off, or scoring turned off", the
// disjunction side at the searcher level: NewDisjunctionSearcher over term
// searchers whose postings offer the unadorned-disjunction optimisation returns
// exactly the documents that match at least max(min,1) clauses — with scoring
// "none" (optimisation offered) and with scoring on (not offered) alike.
//
// vf:harness property=C08 cases=nt:2..3;min:0..3;none:0..1 maxpaths=400000
// vf:bounds three documents, each in an arbitrary subset of nt (2..3) term posting lists; min-should 0..3; scoring none (the optimisation may be taken) or default
// vf:assume the optimisation offered by the posting lists has its documented meaning (one iterator over the union of the lists), as index/optimize.go implements it (decided at the index level by VF_C08_OptimizeEquivalence); everything between the query's min-should and that offer — the guard in newDisjunctionSearcher, optimizeCompositeSearcher, TermSearcher.Optimize — is the real code
func VF_C08_DisjunctionMinShould(nt int, min int, none int) {
	vfOptUsed = 0
	var in [3][3]bool
	var qs []search.Searcher
	opts := search.SearcherOptions{}
	if none == 1 {
		opts.Score = "none"
	}
	for t := 0; t < nt; t++ {
		l := &vfOptList{}
		for d := 0; d < 3; d++ {
			in[t][d] = vfBool("has")
			if in[t][d] {
				l.nums = append(l.nums, uint64(d+1))
			}
		}
		ts, err := newTermSearcherFromReader(nil, l, []byte{byte('a' + t)}, "f", 1.0, similarity.ConstantScorer(1), opts)
		vfAssert(err == nil, "term searcher builds")
		qs = append(qs, ts)
	}
	s, err := NewDisjunctionSearcher(nil, qs, min, similarity.NewCompositeSumScorer(), opts)
	vfAssert(err == nil && s != nil, "disjunction searcher builds")
	ctx := search.NewSearchContext(s.DocumentMatchPoolSize()+4, 0)
	var got [3]bool
	for {
		m, err := s.Next(ctx)
		vfAssert(err == nil, "no error")
		if m == nil {
			break
		}
		vfAssert(m.Number >= 1 && m.Number <= 3, "only indexed documents are returned")
		if m.Number >= 1 && m.Number <= 3 {
			vfAssert(!got[m.Number-1], "no document is returned twice")
			got[m.Number-1] = true
		}
	}
	need := min
	if need < 1 {
		need = 1
	}
	for d := 0; d < 3; d++ {
		cnt := 0
		for t := 0; t < nt; t++ {
			if in[t][d] {
				cnt++
			}
		}
		vfAssert(got[d] == (cnt >= need), "a document is returned iff it matches at least min-should clauses (at least one)")
	}
}
