//go:build verif

package searcher

import (
	"math"

	"github.com/blugelabs/bluge/search"
	"github.com/blugelabs/bluge/search/similarity"
)

// a leaf with one posting (doc 5), a symbolic score and, when asked, an explanation
type vfScoredLeaf struct {
	score   float64
	explain bool
	done    bool
}

func (l *vfScoredLeaf) Next(ctx *search.Context) (*search.DocumentMatch, error) {
	if l.done {
		return nil, nil
	}
	l.done = true
	d := ctx.DocumentMatchPool.Get()
	d.Number = 5
	d.Score = l.score
	if l.explain {
		d.Explanation = search.NewExplanation(l.score, "leaf")
	}
	return d, nil
}
func (l *vfScoredLeaf) Advance(ctx *search.Context, n uint64) (*search.DocumentMatch, error) {
	if n > 5 {
		l.done = true
	}
	return l.Next(ctx)
}
func (l *vfScoredLeaf) Close() error               { return nil }
func (l *vfScoredLeaf) Count() uint64              { return 1 }
func (l *vfScoredLeaf) Min() int                   { return 0 }
func (l *vfScoredLeaf) Size() int                  { return 8 }
func (l *vfScoredLeaf) DocumentMatchPoolSize() int { return 1 }

func vfSameFloat(a, b float64) bool {
	return vfAny(math.Float64bits(a) == math.Float64bits(b), vfAll(math.IsNaN(a), math.IsNaN(b)))
}

func vfCompound(shape int, explain bool, sa, sb, sc, boost float64) *search.DocumentMatch {
	opts := search.SearcherOptions{Explain: explain}
	a, b, c := &vfScoredLeaf{score: sa, explain: explain}, &vfScoredLeaf{score: sb, explain: explain}, &vfScoredLeaf{score: sc, explain: explain}
	scorer := func() search.CompositeScorer { return similarity.NewCompositeSumScorerWithBoost(boost) }
	var s search.Searcher
	var err error
	switch shape {
	case 0:
		s, err = NewConjunctionSearcher(nil, []search.Searcher{a, b}, scorer(), opts)
	case 1:
		s, err = NewDisjunctionSearcher(nil, []search.Searcher{a, b, c}, 1, scorer(), opts)
	case 2:
		var m, sh search.Searcher
		m, err = NewConjunctionSearcher(nil, []search.Searcher{a}, similarity.NewCompositeSumScorer(), opts)
		vfAssert(err == nil, "builds")
		sh, err = NewDisjunctionSearcher(nil, []search.Searcher{b, c}, 0, similarity.NewCompositeSumScorer(), opts)
		vfAssert(err == nil, "builds")
		s, err = NewBooleanSearcher(m, sh, nil, scorer(), opts)
	}
	vfAssert(err == nil, "builds")
	ctx := search.NewSearchContext(8, 0)
	d, err := s.Next(ctx)
	vfAssert(err == nil && d != nil, "the single document matches")
	return d
}

// C17 through the compound searchers: with explanations enabled the returned
// score is the explanation's value, it equals the score returned with
// explanations disabled, and it is the sum of the matching parts times the
// query's boost.
//
// vf:harness property=C17 cases=shape:0..2;boosted:0..1
// vf:bounds conjunction of 2, disjunction of 3, boolean (must 1 + should 2): one document matched by every leaf; arbitrary leaf scores; boost exactly 1 (boosted=0) or any other value (boosted=1)
// vf:assume float + and * uninterpreted (with x*1 = x, exact in IEEE-754): the equalities hold for every interpretation; model leaf searchers carrying score and explanation
func VF_C17_CompoundExplain(shape int, boosted int) {
	sa, sb, sc := vfFloat64("sa"), vfFloat64("sb"), vfFloat64("sc")
	boost := 1.0
	if boosted == 1 {
		boost = vfFloat64("boost")
		vfAssume(boost != 1.0)
	}
	on := vfCompound(shape, true, sa, sb, sc, boost)
	off := vfCompound(shape, false, sa, sb, sc, boost)
	vfAssert(on.Explanation != nil, "explanation present when asked for")
	vfAssert(off.Explanation == nil, "no explanation when not asked for")
	vfAssert(vfSameFloat(on.Score, on.Explanation.Value), "score equals the explanation's value")
	vfAssert(vfSameFloat(on.Score, off.Score), "the score with explanations equals the score without")
	var want float64
	switch shape {
	case 0:
		want = (0 + sa + sb) * boost
	case 1:
		want = (0 + sa + sb + sc) * boost
	case 2:
		want = (0 + (0+sa)*1 + (0+sb+sc)*1) * boost
	}
	vfAssert(vfSameFloat(off.Score, want), "compound score = (sum of matching parts) * boost")
}

// a leaf with two postings (docs 5 and 9), a symbolic score for each
type vfTwoHitLeaf struct {
	scores [2]float64
	pos    int
}

var vfTwoHitDocs = [2]uint64{5, 9}

func (l *vfTwoHitLeaf) Next(ctx *search.Context) (*search.DocumentMatch, error) {
	if l.pos >= 2 {
		return nil, nil
	}
	d := ctx.DocumentMatchPool.Get()
	d.Number = vfTwoHitDocs[l.pos]
	d.Score = l.scores[l.pos]
	d.Explanation = search.NewExplanation(l.scores[l.pos], "leaf")
	l.pos++
	return d, nil
}
func (l *vfTwoHitLeaf) Advance(ctx *search.Context, n uint64) (*search.DocumentMatch, error) {
	for l.pos < 2 && vfTwoHitDocs[l.pos] < n {
		l.pos++
	}
	return l.Next(ctx)
}
func (l *vfTwoHitLeaf) Close() error               { return nil }
func (l *vfTwoHitLeaf) Count() uint64              { return 2 }
func (l *vfTwoHitLeaf) Min() int                   { return 0 }
func (l *vfTwoHitLeaf) Size() int                  { return 16 }
func (l *vfTwoHitLeaf) DocumentMatchPoolSize() int { return 1 }

// C17, explanations of different hits are independent objects: after the second
// hit of a compound query has been scored and explained, the first hit's
// explanation still shows its own constituents — its value is still the sum of
// its children (times the boost) and the children are the first hit's leaf
// scores.
//
// vf:harness property=C17 cases=shape:0..1;boosted:0..1
// vf:bounds two leaves with two common documents, arbitrary scores per leaf and document; conjunction and disjunction; with and without a query boost
// vf:assume float arithmetic uninterpreted (equalities hold for every interpretation)
func VF_C17_ExplanationsOfEarlierHitsStay(shape int, boosted int) {
	a := &vfTwoHitLeaf{scores: [2]float64{vfFloat64("a1"), vfFloat64("a2")}}
	b := &vfTwoHitLeaf{scores: [2]float64{vfFloat64("b1"), vfFloat64("b2")}}
	boost := 1.0
	if boosted == 1 {
		boost = vfFloat64("boost")
		vfAssume(boost != 1.0)
	}
	opts := search.SearcherOptions{Explain: true}
	var s search.Searcher
	var err error
	if shape == 0 {
		s, err = NewConjunctionSearcher(nil, []search.Searcher{a, b}, similarity.NewCompositeSumScorerWithBoost(boost), opts)
	} else {
		s, err = NewDisjunctionSearcher(nil, []search.Searcher{a, b}, 1, similarity.NewCompositeSumScorerWithBoost(boost), opts)
	}
	vfAssert(err == nil, "builds")
	ctx := search.NewSearchContext(8, 0)
	first, err := s.Next(ctx)
	vfAssert(err == nil && first != nil && first.Number == 5, "first hit")
	firstScore := first.Score
	second, err := s.Next(ctx)
	vfAssert(err == nil && second != nil && second.Number == 9, "second hit")
	// look at the first hit's explanation again, now that the second was scored
	e := first.Explanation
	vfAssert(e != nil, "the first hit is explained")
	vfAssert(vfSameFloat(e.Value, firstScore), "the first hit's explanation still carries its score")
	sum := e
	if boosted == 1 {
		// boosted: value = boost * sum node
		vfAssert(len(e.Children) == 2, "a boosted compound node has the boost and the sum as children")
		if len(e.Children) == 2 {
			sum = e.Children[1]
			if !vfSameFloat(e.Children[0].Value, boost) {
				sum = e.Children[0]
			}
		}
	}
	vfAssert(len(sum.Children) == 2, "the sum node of the first hit has one child per matching part")
	if len(sum.Children) == 2 {
		vfAssert(vfSameFloat(sum.Children[0].Value, a.scores[0]) && vfSameFloat(sum.Children[1].Value, b.scores[0]), "the first hit's explanation still shows the first hit's constituents after the second hit was scored")
	}
}
