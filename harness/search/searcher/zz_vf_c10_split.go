//go:build verif

package searcher

import (
	"bytes"

	"github.com/blugelabs/bluge/numeric"
)

// State shared between a split harness and its loop-cut hook (same path).
var vfSplit struct {
	s          uint
	v          int64
	minH, maxH int64
	stepSeen   bool
}

// vfInRange says whether value v is matched by range r: the index holds, for
// every value, its prefix-coded term at each shift 0,4,..,60, and the searcher
// looks up every term t with start <= t <= end (bytes order, see Enumerate).
func vfInRange(r *termRange, v int64) bool {
	shift := uint(r.startTerm[0] - numeric.ShiftStartInt64)
	t := numeric.MustNewPrefixCodedInt64(v, shift)
	return vfAll(bytes.Compare(r.startTerm, t) <= 0, bytes.Compare(t, r.endTerm) <= 0)
}

func vfMatchedAny(rs termRanges, v int64) bool {
	m := false
	for _, r := range rs {
		m = vfAny(m, vfInRange(r, v))
	}
	return m
}

func vfRangesWellFormed(rs termRanges, shift uint) {
	for _, r := range rs {
		vfAssert(len(r.startTerm) == len(r.endTerm), "range terms have equal length")
		vfAssert(r.startTerm[0] == r.endTerm[0], "range terms have the same shift byte")
		vfAssert(r.startTerm[0] == numeric.ShiftStartInt64+byte(shift), "range emitted at the current shift")
		vfAssert(bytes.Compare(r.startTerm, r.endTerm) <= 0, "range start <= end")
	}
}

// vfRemaining: v lies in the part of the interval still represented by
// (min,max) at precision shift s, i.e. min>>s <= v>>s <= max>>s.
func vfRemaining(v, min, max int64, s uint) bool {
	return vfAll(min>>s <= v>>s, v>>s <= max>>s)
}

func vfSplitHook(phase int, names []string, phis []interface{}) []interface{} {
	st := &vfSplit
	if phase == 0 {
		out := make([]interface{}, len(phis))
		for i, n := range names {
			switch n {
			case "minBound":
				out[i] = st.minH
			case "maxBound":
				out[i] = st.maxH
			case "shift":
				out[i] = st.s
			case "rv":
				out[i] = make(termRanges, 0)
			default:
				vfFail("unexpected loop variable " + n)
			}
		}
		return out
	}
	// back edge: one iteration ran from (s, minH, maxH) with an empty rv
	var min2, max2 int64
	var s2 uint
	var rv2 termRanges
	for i, n := range names {
		switch n {
		case "minBound":
			min2 = phis[i].(int64)
		case "maxBound":
			max2 = phis[i].(int64)
		case "shift":
			s2 = phis[i].(uint)
		case "rv":
			rv2 = phis[i].(termRanges)
		}
	}
	st.stepSeen = true
	vfAssert(s2 == st.s+4, "shift advances by the precision step")
	low2 := int64(1)<<s2 - 1
	vfAssert(min2&low2 == 0, "invariant: low bits of min are clear at the next precision")
	vfAssert(max2&low2 == 0, "invariant: low bits of max are clear at the next precision")
	vfAssert(min2 <= max2, "invariant: min <= max at the next precision")
	vfRangesWellFormed(rv2, st.s)
	matched := vfMatchedAny(rv2, st.v)
	before := vfRemaining(st.v, st.minH, st.maxH, st.s)
	after := vfRemaining(st.v, min2, max2, s2)
	vfAssert(vfAny(matched, after) == before, "step: v remaining before <=> matched by a range emitted now or remaining after")
	vfAssert(!vfAll(matched, after), "step: a value is never both matched now and left for later")
	vfAssert(len(rv2) <= 2, "at most two ranges per precision step")
	return nil
}

// C10 range decomposition, inductive step + exit (loop cut at the header of
// splitInt64Range): from an arbitrary loop-head state at precision shift s,
// one iteration of the real loop body either re-establishes the invariant
// (checked by the hook on the back edge) or exits with ranges that match v
// exactly when v was still "remaining".
//
// vf:harness property=C10 cases=shift:0..60:4
// vf:cut github.com/blugelabs/bluge/search/searcher.splitInt64Range vfSplitHook
// vf:bounds shift concrete in {0,4,..,60}; min, max, v: all int64 with the invariant (low shift bits clear, min <= max); loop iterations unbounded (cut)
func VF_C10_SplitStep(shift uint) {
	st := &vfSplit
	st.s = shift
	st.v = vfInt64("v")
	st.minH = vfInt64("min")
	st.maxH = vfInt64("max")
	low := int64(1)<<shift - 1
	vfAssume(st.minH&low == 0)
	vfAssume(st.maxH&low == 0)
	vfAssume(st.minH <= st.maxH)
	rs := splitInt64Range(st.minH, st.maxH, 4)
	// only paths that leave the loop return here
	vfRangesWellFormed(rs, shift)
	vfAssert(len(rs) == 1, "exit emits exactly the final range")
	vfAssert(vfMatchedAny(rs, st.v) == vfRemaining(st.v, st.minH, st.maxH, shift), "exit: final range matches v iff v was remaining")
}

// Base case: on entry the loop head state is (shift 0, min, max, empty), the
// remaining-predicate is exactly v in [min,max], and an empty interval yields
// no range at all.
//
// vf:harness property=C10
// vf:bounds min, max, v: all int64
func VF_C10_SplitInit() {
	min, max, v := vfInt64("min"), vfInt64("max"), vfInt64("v")
	if min > max {
		rs := splitInt64Range(min, max, 4)
		vfAssert(len(rs) == 0, "inverted interval yields no ranges")
		return
	}
	vfAssert(vfRemaining(v, min, max, 0) == vfAll(min <= v, v <= max), "base: remaining at shift 0 is membership in [min,max]")
}

// The last precision: at shift 60 the loop must exit (shift+step >= 64), so
// the recursion is bounded by 16 iterations.
//
// vf:harness property=C10
// vf:cut github.com/blugelabs/bluge/search/searcher.splitInt64Range vfSplitHook
// vf:bounds min, max: all int64 multiples of 2^60
func VF_C10_SplitTerminates() {
	st := &vfSplit
	st.s = 60
	st.v = vfInt64("v")
	st.minH = vfInt64("min")
	st.maxH = vfInt64("max")
	low := int64(1)<<60 - 1
	vfAssume(st.minH&low == 0)
	vfAssume(st.maxH&low == 0)
	vfAssume(st.minH <= st.maxH)
	st.stepSeen = false
	splitInt64Range(st.minH, st.maxH, 4)
	vfAssert(!st.stepSeen, "no back edge at shift 60")
}
