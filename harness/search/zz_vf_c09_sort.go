//go:build verif

package search

import "bytes"

func vfSign(x int) int {
	if x < 0 {
		return -1
	}
	if x > 0 {
		return 1
	}
	return 0
}

// Reference meaning of a sort order: lexicographic on the keys, each key
// compared bytewise and flipped when descending, ties broken by index order
// (hit number).
func vfSpecCompare(desc []bool, a, b *DocumentMatch) int {
	for x := range desc {
		c := bytes.Compare(a.SortValue[x], b.SortValue[x])
		if c != 0 {
			if desc[x] {
				return -c
			}
			return c
		}
	}
	if a.HitNumber < b.HitNumber {
		return -1
	}
	if a.HitNumber > b.HitNumber {
		return 1
	}
	return 0
}

// C09: SortOrder.Compare is a strict total order (on distinct hit numbers)
// that agrees with the reference meaning, for every combination of key values,
// directions and hit numbers.
//
// vf:harness property=C09 cases=nkeys:1..2 cases.thorough=nkeys:1..3
// vf:bounds nkeys sort keys (quick 1..2, thorough 1..3), each key value 2 arbitrary bytes or 1 byte (lengths 1,2 mixed), directions arbitrary, three hits with arbitrary hit numbers
func VF_C09_CompareTotalOrder(nkeys int) {
	var o SortOrder
	desc := make([]bool, nkeys)
	for x := 0; x < nkeys; x++ {
		s := &Sort{}
		if vfBool("desc") {
			s.Desc()
		}
		desc[x] = s.desc
		o = append(o, s)
	}
	mk := func(short bool) *DocumentMatch {
		d := &DocumentMatch{HitNumber: vfInt("hit")}
		for x := 0; x < nkeys; x++ {
			n := 2
			if short && x == 0 {
				n = 1
			}
			d.SortValue = append(d.SortValue, vfBytes("key", n))
		}
		return d
	}
	a, b, c := mk(false), mk(true), mk(false)
	ab, ba, bc, ac := o.Compare(a, b), o.Compare(b, a), o.Compare(b, c), o.Compare(a, c)
	vfAssert(vfSign(ab) == -vfSign(ba), "antisymmetric")
	vfAssert(o.Compare(a, a) == 0, "reflexive zero")
	vfAssert(vfImplies(ab < 0 && bc < 0, ac < 0), "transitive")
	vfAssert(vfImplies(a.HitNumber != b.HitNumber, ab != 0), "total: distinct hits are never tied")
	vfAssert(vfSign(ab) == vfSpecCompare(desc, a, b), "agrees with the reference meaning (lexicographic, desc flips, hit number last)")
}

// C09 missing values: the placeholder used for a hit without a value sorts
// before every real value when missing-first is requested and after every real
// value otherwise, in the effective direction of the key.
//
// vf:harness property=C09 cases=desc:0..1;first:0..1
// vf:bounds all four (descending, missing-first) combinations; real values: any 1..2 bytes other than the reserved placeholders' extremes (excluded: the real value 0x00, which equals the low placeholder and ties with a missing value; values of ten or more 0xFF bytes)
func VF_C09_MissingPlacement(desc int, first int) {
	s := SortBy(vfKeySource{})
	if desc == 1 {
		s.Desc()
	}
	if first == 1 {
		s.MissingFirst()
	}
	o := SortOrder{s}
	missing := &DocumentMatch{HitNumber: 1}
	real := &DocumentMatch{HitNumber: 2, Number: 7}
	key := vfBytes("key", 1+vfChoice("len", 2))
	// a real value equal to the low placeholder (the single byte 0x00) ties with a
	// missing value and falls back to index order: stated exclusion, see DESIGN.md
	vfAssume(!(len(key) == 1 && key[0] == 0))
	vfKeys = map[uint64][]byte{7: key}
	o.Compute(missing)
	o.Compute(real)
	c := o.Compare(missing, real)
	if first == 1 {
		vfAssert(c < 0, "missing-first: the hit without a value sorts before the hit with a value")
	} else {
		vfAssert(c > 0, "missing-last: the hit without a value sorts after the hit with a value")
	}
	// Reverse() (used for search-before) flips the direction and keeps the
	// missing hits on the same side of the reversed listing.
	o.Reverse()
	m2 := &DocumentMatch{HitNumber: 1}
	r2 := &DocumentMatch{HitNumber: 2, Number: 7}
	o.Compute(m2)
	o.Compute(r2)
	c2 := o.Compare(m2, r2)
	vfAssert(vfSign(c2) == -vfSign(c), "reversed order is the exact mirror, missing values included")
	// what TopNSearch.Collector does for search-before: Copy(), then Reverse() on the copy.
	// o is reversed at this point; reversing a copy of it must give the original order again,
	// and the copy itself must order exactly like o.
	cp := o.Copy()
	m3, r3 := &DocumentMatch{HitNumber: 1}, &DocumentMatch{HitNumber: 2, Number: 7}
	cp.Compute(m3)
	cp.Compute(r3)
	vfAssert(vfSign(cp.Compare(m3, r3)) == vfSign(c2), "a copy of a sort order orders like the original (direction and missing-value placement kept)")
	cp.Reverse()
	m4, r4 := &DocumentMatch{HitNumber: 1}, &DocumentMatch{HitNumber: 2, Number: 7}
	cp.Compute(m4)
	cp.Compute(r4)
	vfAssert(vfSign(cp.Compare(m4, r4)) == vfSign(c), "reversing the copy mirrors it, missing values included")
}

var vfKeys map[uint64][]byte

type vfKeySource struct{}

func (vfKeySource) Fields() []string { return nil }
func (vfKeySource) Value(m *DocumentMatch) []byte {
	return vfKeys[m.Number]
}
