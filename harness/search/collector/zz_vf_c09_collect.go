//go:build verif

package collector

import (
	"context"

	"github.com/blugelabs/bluge/search"
)

// ---- shared model pieces ---------------------------------------------------------

var vfKeyOf map[uint64][]byte // doc number -> sort key (nil: no value)

type vfKeySource struct{}

func (vfKeySource) Fields() []string { return nil }
func (vfKeySource) Value(m *search.DocumentMatch) []byte {
	return vfKeyOf[m.Number]
}

func vfOrder(desc, missingFirst bool) search.SortOrder {
	s := search.SortBy(vfKeySource{})
	if desc {
		s.Desc()
	}
	if missingFirst {
		s.MissingFirst()
	}
	return search.SortOrder{s}
}

// a hit with an explicit one-byte key already computed into SortValue
func vfHit(name string, hit int) *search.DocumentMatch {
	return &search.DocumentMatch{HitNumber: hit, Number: uint64(hit), SortValue: [][]byte{{vfByte(name)}}}
}

func vfCmp(o search.SortOrder) collectorCompare {
	return func(i, j *search.DocumentMatch) int { return o.Compare(i, j) }
}

// ---- store steps ------------------------------------------------------------------

// Slice store, one step from an arbitrary valid store: after
// AddNotExceedingSize the slice is sorted again, holds old + new minus the
// returned element, and the returned element is a worst one.
//
// vf:harness property=C09 cases=n:0..5;room:0..1 cases.thorough=n:0..10;room:0..1
// vf:bounds store of n hits (quick 0..5, thorough 0..10) with arbitrary one-byte keys (ties allowed) in sorted order, distinct hit numbers 1..n; new hit with arbitrary key and hit number n+1; size = n (full: one element must leave) or n+1 (room)
func VF_C09_SliceStoreStep(n int, room int) {
	o := vfOrder(vfBool("desc"), false)
	cmp := vfCmp(o)
	st := newStoreSlice(n+2, cmp)
	for i := 0; i < n; i++ {
		st.slice = append(st.slice, vfHit("key", i+1))
	}
	for i := 1; i < n; i++ {
		vfAssume(cmp(st.slice[i-1], st.slice[i]) < 0)
	}
	old := append(search.DocumentMatchCollection(nil), st.slice...)
	d := vfHit("newkey", n+1)
	removed := st.AddNotExceedingSize(d, n+room)
	if room == 1 {
		vfAssert(removed == nil, "nothing leaves a store that has room")
		vfAssert(len(st.slice) == n+1, "the new hit was added")
	} else {
		vfAssert(removed != nil, "a full store returns one element")
		vfAssert(len(st.slice) == n, "size kept")
	}
	for i := 1; i < len(st.slice); i++ {
		vfAssert(cmp(st.slice[i-1], st.slice[i]) < 0, "slice stays sorted")
	}
	// multiset: every old element and the new one is either stored or the removed one, exactly once
	all := append(old, d)
	for _, x := range all {
		cnt := 0
		for _, y := range st.slice {
			if x == y {
				cnt++
			}
		}
		if x == removed {
			cnt++
		}
		vfAssert(cnt == 1, "every hit is kept or returned, exactly once")
	}
	if removed != nil {
		for _, y := range st.slice {
			vfAssert(cmp(y, removed) < 0, "the returned element is worse than everything kept")
		}
	}
}

func vfHeapOK(st *collectStoreHeap, cmp collectorCompare) bool {
	ok := true
	for i := 1; i < len(st.heap); i++ {
		ok = vfAll(ok, cmp(st.heap[(i-1)/2], st.heap[i]) >= 0)
	}
	return ok
}

// Heap store, one step from an arbitrary valid heap (root = worst hit).
//
// vf:harness property=C09 cases=n:0..6;room:0..1 cases.thorough=n:0..12;room:0..1
// vf:bounds heap of n hits (quick 0..6, thorough 0..12: sifts cross three levels) with arbitrary one-byte keys satisfying the heap order; container/heap executed from source
func VF_C09_HeapStoreStep(n int, room int) {
	o := vfOrder(vfBool("desc"), false)
	cmp := vfCmp(o)
	st := newStoreHeap(n+2, cmp)
	for i := 0; i < n; i++ {
		st.heap = append(st.heap, vfHit("key", i+1))
	}
	vfAssume(vfHeapOK(st, cmp))
	old := append(search.DocumentMatchCollection(nil), st.heap...)
	d := vfHit("newkey", n+1)
	removed := st.AddNotExceedingSize(d, n+room)
	if room == 1 {
		vfAssert(removed == nil, "nothing leaves a store that has room")
		vfAssert(len(st.heap) == n+1, "the new hit was added")
	} else {
		vfAssert(removed != nil, "a full store returns one element")
		vfAssert(len(st.heap) == n, "size kept")
	}
	vfAssert(vfHeapOK(st, cmp), "heap order restored")
	all := append(old, d)
	for _, x := range all {
		cnt := 0
		for _, y := range st.heap {
			if x == y {
				cnt++
			}
		}
		if x == removed {
			cnt++
		}
		vfAssert(cnt == 1, "every hit is kept or returned, exactly once")
	}
	if removed != nil {
		for _, y := range st.heap {
			vfAssert(cmp(y, removed) < 0, "the returned element is worse than everything kept")
		}
	}
}

// Heap store Final: pops everything into ascending order and skips `skip`.
//
// vf:harness property=C09 cases=n:0..5;skip:0..2 cases.thorough=n:0..8;skip:0..3
// vf:bounds heap of n hits with arbitrary keys satisfying the heap order; skip concrete
func VF_C09_HeapFinal(n int, skip int) {
	o := vfOrder(vfBool("desc"), false)
	cmp := vfCmp(o)
	st := newStoreHeap(n+2, cmp)
	for i := 0; i < n; i++ {
		st.heap = append(st.heap, vfHit("key", i+1))
	}
	vfAssume(vfHeapOK(st, cmp))
	old := append(search.DocumentMatchCollection(nil), st.heap...)
	res, err := st.Final(skip, func(d *search.DocumentMatch) error { return nil })
	vfAssert(err == nil, "no error")
	want := n - skip
	if want < 0 {
		want = 0
	}
	vfAssert(len(res) == want, "n - skip results")
	for i := 1; i < len(res); i++ {
		vfAssert(cmp(res[i-1], res[i]) < 0, "ascending")
	}
	// exactly `skip` of the old hits are better than the first result
	if len(res) > 0 {
		better := 0
		for _, x := range old {
			if cmp(x, res[0]) < 0 {
				better++
			}
		}
		vfAssert(better == skip, "exactly skip hits precede the first result")
	}
}

// ---- collectSingle: the inductive step of "store = best size+skip hits seen" ---------

// Invariant CI: |store| <= k; every stored hit is better than the best dropped
// hit `low` (nil iff nothing was dropped, and then... ); low != nil => store full.
// Step: offer a new hit with a larger hit number. Afterwards the store holds
// the best k of (store + new hit), low is the best of (old low, what left),
// and CI holds again — so the early return on "not better than the lowest
// outside the results" never discards a hit that belongs into the results.
//
// vf:harness property=C09 cases=m:0..3;k:1..3;low:0..1;after:0..1 cases.thorough=m:0..5;k:1..5;low:0..1;after:0..1
// vf:bounds store of m <= k hits (quick k <= 3, thorough k <= 5) with arbitrary one-byte keys, slice store and heap store both (k+skip crosses the switch only through the store-step harnesses); lowest-outside hit present or not; search-after key present or not; direction arbitrary
func VF_C09_CollectSingleStep(m int, k int, low int, after int) {
	if m > k || (low == 1 && m != k) {
		vfAssert(true, "state excluded by the invariant")
		return
	}
	desc := vfBool("desc")
	o := vfOrder(desc, false)
	var hc *TopNCollector
	if after == 1 {
		hc = NewTopNCollectorAfter(k, o, [][]byte{{vfByte("afterkey")}}, false)
	} else {
		hc = NewTopNCollector(k, 0, o)
	}
	hc.neededFields = nil
	cmp := vfCmp(o)
	st := hc.store.(*collectStoreSlice)
	for i := 0; i < m; i++ {
		h := vfHit("key", i+1)
		st.slice = append(st.slice, h)
		if hc.searchAfter != nil {
			hc.searchAfter.HitNumber = h.HitNumber
			vfAssume(cmp(h, hc.searchAfter) > 0) // stored hits passed the filter
		}
	}
	for i := 1; i < m; i++ {
		vfAssume(cmp(st.slice[i-1], st.slice[i]) < 0)
	}
	var lowHit *search.DocumentMatch
	if low == 1 {
		lowHit = vfHit("lowkey", m+1)
		for _, x := range st.slice {
			vfAssume(cmp(x, lowHit) < 0)
		}
		hc.lowestMatchOutsideResults = lowHit
	}
	old := append(search.DocumentMatchCollection(nil), st.slice...)
	// reference copy: the collector may recycle the old marker through the pool
	var lowRef *search.DocumentMatch
	if lowHit != nil {
		lowRef = &search.DocumentMatch{HitNumber: lowHit.HitNumber, SortValue: [][]byte{append([]byte(nil), lowHit.SortValue[0]...)}}
	}

	d := &search.DocumentMatch{HitNumber: m + 2, Number: 99}
	vfKeyOf = map[uint64][]byte{99: {vfByte("newkey")}}
	ctx := search.NewSearchContext(4, 1)
	bucket := search.NewBucket("", nil)
	err := hc.collectSingle(ctx, d, bucket)
	vfAssert(err == nil, "no error")
	vfAssert(len(d.SortValue) == 1 || d.Number != 99, "sort key computed for the offered hit")

	// reference
	passes := true
	if hc.searchAfter != nil {
		probe := &search.DocumentMatch{HitNumber: m + 2, SortValue: [][]byte{vfKeyOf[99]}}
		sa := &search.DocumentMatch{HitNumber: m + 2, SortValue: hc.searchAfter.SortValue}
		passes = cmp(probe, sa) > 0
	}
	dk := &search.DocumentMatch{HitNumber: m + 2, SortValue: [][]byte{vfKeyOf[99]}}
	stored := func(x *search.DocumentMatch) bool {
		for _, y := range st.slice {
			if x == y {
				return true
			}
		}
		return false
	}
	vfAssert(len(st.slice) <= k, "store never exceeds size+skip")
	for i := 1; i < len(st.slice); i++ {
		vfAssert(cmp(st.slice[i-1], st.slice[i]) < 0, "store stays sorted")
	}
	if !passes {
		vfAssert(!stored(d) && len(st.slice) == m, "a hit at or before the search-after key is not collected")
		vfAssert(hc.lowestMatchOutsideResults == lowHit, "filtered hit does not touch the lowest-outside marker")
		return
	}
	// rank of the new hit among the old stored ones
	better := 0
	for _, x := range old {
		if cmp(x, dk) < 0 {
			better++
		}
	}
	shouldStore := better < k && (lowRef == nil || cmp(dk, lowRef) < 0)
	vfAssert(stored(d) == shouldStore, "the new hit is stored iff it ranks within the best size+skip of everything seen")
	for idx, x := range old {
		keep := idx < k-1 || !shouldStore || m < k
		vfAssert(stored(x) == keep, "old hits leave only when pushed past size+skip by the new one")
	}
	if hc.lowestMatchOutsideResults != nil {
		vfAssert(len(st.slice) == k, "something was dropped only from a full store")
		for _, y := range st.slice {
			vfAssert(cmp(y, hc.lowestMatchOutsideResults) < 0, "invariant: every stored hit is better than the best dropped hit")
		}
	} else {
		vfAssert(lowHit == nil && (m < k || !false), "marker stays nil only if nothing was dropped before")
		vfAssert(len(st.slice) == m+1 || !shouldStore, "nothing dropped: the store grew")
	}
}

// ---- end to end -----------------------------------------------------------------------------

type vfSearcher struct {
	n    int
	pos  int
	miss []bool
}

func (s *vfSearcher) Next(ctx *search.Context) (*search.DocumentMatch, error) {
	if s.pos >= s.n {
		return nil, nil
	}
	s.pos++
	d := ctx.DocumentMatchPool.Get()
	d.Number = uint64(s.pos)
	return d, nil
}
func (s *vfSearcher) DocumentMatchPoolSize() int { return 1 }
func (s *vfSearcher) Close() error               { return nil }

func vfDrain(it search.DocumentMatchIterator) []*search.DocumentMatch {
	var out []*search.DocumentMatch
	for {
		d, err := it.Next()
		if err != nil || d == nil {
			return out
		}
		out = append(out, d)
	}
}

// Top-N end to end over the real Collect loop, pool and stores: results are
// exactly elements [from, from+n) of the full ranking.
//
// vf:harness property=C09 cases=k:0..4;n:0..3;from:0..2;cap:1,1000 cases.thorough=k:0..5;n:0..5;from:0..3;cap:1,3,1000
// vf:bounds k hits (quick 0..4, thorough 0..5) in index order with arbitrary one-byte keys or no value (missing), direction and missing-first arbitrary; size n and offset from concrete in range; document matches come from the real pool; PreAllocSizeSkipCap set to 1 (3) or left at 1000 so that n+from crosses the preallocation cap
func VF_C09_TopNEndToEnd(k int, n int, from int, cap int) {
	// the preallocation cap is a package variable (default 1000); a small value
	// makes the capped regime reachable with small n+from
	PreAllocSizeSkipCap = cap
	o := vfOrder(vfBool("desc"), vfBool("missingFirst"))
	vfKeyOf = map[uint64][]byte{}
	for i := 1; i <= k; i++ {
		if !vfBool("missing") {
			vfKeyOf[uint64(i)] = []byte{vfByte("key")}
			vfAssume(vfKeyOf[uint64(i)][0] != 0)
		}
	}
	hc := NewTopNCollector(n, from, o)
	it, err := hc.Collect(context.Background(), nil, &vfSearcher{n: k})
	vfAssert(err == nil, "no error")
	res := vfDrain(it)
	want := k - from
	if want < 0 {
		want = 0
	}
	if want > n {
		want = n
	}
	vfAssert(len(res) == want, "result count is min(n, max(0, matches-from))")
	// reference ranking through the verified comparator on fresh matches
	ref := make([]*search.DocumentMatch, k)
	for i := 1; i <= k; i++ {
		ref[i-1] = &search.DocumentMatch{Number: uint64(i), HitNumber: i}
		o.Compute(ref[i-1])
	}
	rank := func(num uint64) int {
		r := 0
		for _, x := range ref {
			if x.Number != num && o.Compare(x, ref[num-1]) < 0 {
				r++
			}
		}
		return r
	}
	for i, d := range res {
		vfAssert(d.Number >= 1 && d.Number <= uint64(k), "result is one of the matches")
		vfAssert(rank(d.Number) == from+i, "result i is the match of rank from+i in the full ranking")
	}
}

// Paging with search-after: page 2 (after the last key of page 1) is exactly
// the next n matches, when the sort order distinguishes all matches.
//
// vf:harness property=C09 cases=k:1..4;n:1..2 cases.thorough=k:1..5;n:1..3
// vf:bounds k hits with pairwise distinct one-byte keys (all present), direction arbitrary; page size n
func VF_C09_PagingAfter(k int, n int) {
	o := vfOrder(vfBool("desc"), false)
	vfKeyOf = map[uint64][]byte{}
	for i := 1; i <= k; i++ {
		vfKeyOf[uint64(i)] = []byte{vfByte("key")}
		for j := 1; j < i; j++ {
			vfAssume(vfKeyOf[uint64(i)][0] != vfKeyOf[uint64(j)][0])
		}
	}
	it, err := NewTopNCollector(n, 0, o).Collect(context.Background(), nil, &vfSearcher{n: k})
	vfAssert(err == nil, "no error")
	p1 := vfDrain(it)
	vfAssert(len(p1) > 0, "first page not empty")
	last := p1[len(p1)-1]
	after := [][]byte{append([]byte(nil), last.SortValue[0]...)}
	it2, err := NewTopNCollectorAfter(n, o, after, false).Collect(context.Background(), nil, &vfSearcher{n: k})
	vfAssert(err == nil, "no error")
	p2 := vfDrain(it2)
	wantLen := k - len(p1)
	if wantLen > n {
		wantLen = n
	}
	vfAssert(len(p2) == wantLen, "second page has the next n matches (or what is left)")
	ref := make([]*search.DocumentMatch, k)
	for i := 1; i <= k; i++ {
		ref[i-1] = &search.DocumentMatch{Number: uint64(i), HitNumber: i}
		o.Compute(ref[i-1])
	}
	rank := func(num uint64) int {
		r := 0
		for _, x := range ref {
			if x.Number != num && o.Compare(x, ref[num-1]) < 0 {
				r++
			}
		}
		return r
	}
	for i, d := range p2 {
		vfAssert(rank(d.Number) == len(p1)+i, "page 2 continues the ranking exactly where page 1 stopped")
	}
}

// Paging with search-before (reversed collector): the page before a key is the
// previous n matches, returned in forward order.
//
// vf:harness property=C09 cases=k:1..4;n:1..2 cases.thorough=k:1..5;n:1..3
// vf:bounds k hits with pairwise distinct one-byte keys, direction arbitrary; the before-key is the key of an arbitrary match
func VF_C09_PagingBefore(k int, n int) {
	desc := vfBool("desc")
	o := vfOrder(desc, false)
	vfKeyOf = map[uint64][]byte{}
	for i := 1; i <= k; i++ {
		vfKeyOf[uint64(i)] = []byte{vfByte("key")}
		for j := 1; j < i; j++ {
			vfAssume(vfKeyOf[uint64(i)][0] != vfKeyOf[uint64(j)][0])
		}
	}
	pivot := uint64(vfChoice("pivot", k) + 1)
	before := [][]byte{append([]byte(nil), vfKeyOf[pivot]...)}
	// what bluge.TopNSearch.Collector does for Before(): a reversed copy of the order
	ro := vfOrder(!desc, true)
	it, err := NewTopNCollectorAfter(n, ro, before, true).Collect(context.Background(), nil, &vfSearcher{n: k})
	vfAssert(err == nil, "no error")
	p := vfDrain(it)
	ref := make([]*search.DocumentMatch, k)
	for i := 1; i <= k; i++ {
		ref[i-1] = &search.DocumentMatch{Number: uint64(i), HitNumber: i}
		o.Compute(ref[i-1])
	}
	rank := func(num uint64) int {
		r := 0
		for _, x := range ref {
			if x.Number != num && o.Compare(x, ref[num-1]) < 0 {
				r++
			}
		}
		return r
	}
	pr := rank(pivot)
	wantLen := pr
	if wantLen > n {
		wantLen = n
	}
	vfAssert(len(p) == wantLen, "the page before the key has the previous n matches (or what exists)")
	for i, d := range p {
		vfAssert(rank(d.Number) == pr-wantLen+i, "previous matches, in forward order")
	}
}
