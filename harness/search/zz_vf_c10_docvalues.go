//go:build verif

package search

import (
	"math"

	"github.com/blugelabs/bluge/numeric"
)

// C10 numeric sorting/aggregation side: the doc-value source decodes the
// shift-0 term back to the indexed float and ignores the lower-precision terms.
//
// vf:harness property=C10
// vf:bounds x: all non-NaN float64; doc values = the 16 terms a numeric field indexes, any of the three orders tried (shift-0 first, last, middle)
func VF_C10_DocValueDecode() {
	x := vfFloat64("x")
	vfAssume(!math.IsNaN(x))
	v := numeric.Float64ToInt64(x)
	pos := vfChoice("pos", 3)
	dm := &DocumentMatch{}
	put0 := func() { dm.addDocValue("n", numeric.MustNewPrefixCodedInt64(v, 0)) }
	if pos == 0 {
		put0()
	}
	for s := uint(4); s < 64; s += 4 {
		dm.addDocValue("n", numeric.MustNewPrefixCodedInt64(v, s))
		if pos == 1 && s == 32 {
			put0()
		}
	}
	if pos == 2 {
		put0()
	}
	nums := Field("n").Numbers(dm)
	vfAssert(len(nums) == 1, "exactly one number per indexed value")
	vfAssert(math.Float64bits(nums[0]) == math.Float64bits(x), "decoded number is the indexed float, bit exact")
	vfAssert(math.Float64bits(Field("n").Number(dm)) == math.Float64bits(x), "Number() is that value")
}
