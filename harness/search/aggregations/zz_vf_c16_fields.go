//go:build verif

package aggregations

import (
	"context"
	"math"
	"time"

	"github.com/blugelabs/bluge/numeric"
	"github.com/blugelabs/bluge/search"
	"github.com/blugelabs/bluge/search/collector"
	segment "github.com/blugelabs/bluge_segment_api"
)

// A match reader whose doc-value reader behaves as the bundled segment format
// does: it visits, for every field name in the requested list IN THE ORDER AND
// MULTIPLICITY GIVEN, every value the document has in that field.
type vfDVMatchReader struct {
	docs  [][]float64 // docs[i] = values of field "n" of document number i+1
	other [][]float64 // values of field "m" (nil: none)
	asked [][]string
}

type vfDVReader struct {
	r      *vfDVMatchReader
	fields []string
}

func (d *vfDVReader) VisitDocumentValues(number uint64, visitor segment.DocumentValueVisitor) error {
	for _, f := range d.fields {
		if f == "n" {
			for _, v := range d.r.docs[number-1] {
				visitor("n", numeric.MustNewPrefixCodedInt64(numeric.Float64ToInt64(v), 0))
			}
		}
		if f == "m" && d.r.other != nil {
			for _, v := range d.r.other[number-1] {
				visitor("m", numeric.MustNewPrefixCodedInt64(numeric.Float64ToInt64(v), 0))
			}
		}
	}
	return nil
}

func (r *vfDVMatchReader) DocumentValueReader(fields []string) (segment.DocumentValueReader, error) {
	r.asked = append(r.asked, fields)
	return &vfDVReader{r, fields}, nil
}

func (r *vfDVMatchReader) VisitStoredFields(number uint64, visitor segment.StoredFieldVisitor) error {
	return nil
}

type vfDVSearcher struct {
	r      *vfDVMatchReader
	n, pos int
}

func (s *vfDVSearcher) Next(ctx *search.Context) (*search.DocumentMatch, error) {
	if s.pos >= s.n {
		return nil, nil
	}
	s.pos++
	d := ctx.DocumentMatchPool.Get()
	d.Number = uint64(s.pos)
	d.SetReader(s.r)
	return d, nil
}
func (s *vfDVSearcher) DocumentMatchPoolSize() int { return 1 }
func (s *vfDVSearcher) Close() error               { return nil }

// C16 through real field sources: the same field named by the sort order and by
// several aggregations (the common "sum and min of price, sorted by price")
// still contributes each matched document's values exactly once — count, sum,
// average and min are those of the matched documents' values. Values travel the
// real path: doc-value reader -> DocumentMatch.LoadDocumentValues ->
// FieldSource.Numbers (prefix-coded decode) -> calculators.
//
// vf:harness property=C16 cases=k:1..2;dup:0..3;all:0..1 cases.thorough=k:1..3;dup:0..3;all:0..1 maxpaths=400000
// vf:bounds k matched documents (quick 1..2, thorough 3) with one arbitrary non-NaN value each in field n; dup selects how often the field is named: 0 = sum only, 1 = sum + min, 2 = sort key + sum, 3 = sort key + sum + min + avg; top-N collector and the all-matches collector
// vf:assume the model doc-value reader visits a field once per occurrence of its name in the requested list, as the bundled segment format does; float + uninterpreted, comparisons exact
func VF_C16_FieldNamedMoreThanOnce(k int, dup int, all int) {
	rd := &vfDVMatchReader{}
	for i := 0; i < k; i++ {
		v := vfFloat64("val")
		vfAssume(v == v)
		rd.docs = append(rd.docs, []float64{v})
	}
	src := search.Field("n")
	aggs := search.Aggregations{"count": CountMatches(), "sum": Sum(src)}
	if dup == 1 || dup == 3 {
		aggs["min"] = Min(src)
	}
	if dup == 3 {
		aggs["avg"] = Avg(src)
	}
	order := search.SortOrder{search.SortBy(search.DocumentScore())}
	if dup >= 2 {
		order = search.SortOrder{search.SortBy(src)}
	}
	var it search.DocumentMatchIterator
	var err error
	if all == 1 {
		it, err = collector.NewAllCollector().Collect(context.Background(), aggs, &vfDVSearcher{r: rd, n: k})
	} else {
		it, err = collector.NewTopNCollector(10, 0, order).Collect(context.Background(), aggs, &vfDVSearcher{r: rd, n: k})
	}
	vfAssert(err == nil, "no error")
	hits := 0
	for {
		m, err := it.Next()
		vfAssert(err == nil, "no error while iterating")
		if m == nil {
			break
		}
		hits++
	}
	vfAssert(hits == k, "every match is returned")
	b := it.Aggregations()
	vfAssert(b.Count() == uint64(k), "count equals the number of matches")
	sum := 0.0
	for _, d := range rd.docs {
		sum += d[0]
	}
	vfAssert(vfSame(b.Metric("sum"), sum), "sum = the matched documents' values, each once, however often the field is named")
}

// C16, a metric nested in a bucket over ANOTHER field than the bucket's own
// source: its values are loaded too, so the nested metric equals that metric
// over the bucket's hits (for terms, numeric range and date range buckets).
//
// vf:harness property=C16 cases=k:1..2;kind:0..2;all:0..1 cases.thorough=k:1..3;kind:0..2;all:0..1 maxpaths=400000
// vf:bounds k matched documents with one arbitrary non-NaN value in field n (bucket source; for the date range read as nanoseconds) and one in field m (nested sum); one bucket that takes every document (all-covering numeric range, all-covering date range, or a terms bucket per value with size k); both collectors
// vf:assume as VF_C16_FieldNamedMoreThanOnce
func VF_C16_NestedMetricOverAnotherField(k int, kind int, all int) {
	rd := &vfDVMatchReader{}
	for i := 0; i < k; i++ {
		v, m := vfFloat64("val"), vfFloat64("other")
		vfAssume(v == v && m == m)
		vfAssume(v < math.Inf(1)) // the numeric range [-Inf, +Inf) is half open: +Inf itself is in no range
		rd.docs = append(rd.docs, []float64{v})
		rd.other = append(rd.other, []float64{m})
	}
	var agg search.Aggregation
	switch kind {
	case 0:
		r := Ranges(search.Field("n")).AddRange(NamedRange("all", math.Inf(-1), math.Inf(1)))
		r.AddAggregation("sum", Sum(search.Field("m")))
		agg = r
	case 1:
		r := DateRanges(search.Field("n")).AddRange(NewNamedDateRange("all", time.Time{}, time.Time{}))
		r.AddAggregation("sum", Sum(search.Field("m")))
		agg = r
	default:
		t := NewTermsAggregation(search.Field("n"), k)
		t.AddAggregation("sum", Sum(search.Field("m")))
		agg = t
	}
	aggs := search.Aggregations{"b": agg}
	var it search.DocumentMatchIterator
	var err error
	if all == 1 {
		it, err = collector.NewAllCollector().Collect(context.Background(), aggs, &vfDVSearcher{r: rd, n: k})
	} else {
		it, err = collector.NewTopNCollector(10, 0, search.SortOrder{search.SortBy(search.DocumentScore())}).Collect(context.Background(), aggs, &vfDVSearcher{r: rd, n: k})
	}
	vfAssert(err == nil, "no error")
	for {
		m, err := it.Next()
		vfAssert(err == nil, "no error while iterating")
		if m == nil {
			break
		}
	}
	bs := it.Aggregations().Buckets("b")
	if kind == 2 {
		// terms: every document falls in the bucket of its own value
		want := 0.0
		var cnt uint64
		for _, b := range bs {
			cnt += b.Count()
		}
		for _, d := range rd.other {
			want += d[0]
		}
		vfAssert(cnt == uint64(k), "terms buckets account for every matched document")
		if len(bs) == 1 {
			vfAssert(vfSame(bs[0].Metric("sum"), want), "the nested sum over another field equals that sum over the bucket's documents")
		}
		return
	}
	vfAssert(len(bs) == 1 && bs[0].Count() == uint64(k), "the all-covering range bucket holds every matched document")
	want := 0.0
	for _, d := range rd.other {
		want += d[0]
	}
	if len(bs) == 1 {
		vfAssert(vfSame(bs[0].Metric("sum"), want), "the nested sum over another field equals that sum over the bucket's documents")
	}
}

type vfDateSrc struct{ dates [][]time.Time }

func (vfDateSrc) Fields() []string { return nil }
func (s vfDateSrc) Dates(m *search.DocumentMatch) []time.Time { return s.dates[m.Number-1] }

func vfInstant(name string) (time.Time, int64, int64) {
	sec, nsec := vfInt64(name+"-sec"), vfInt64(name+"-nsec")
	vfAssume(sec >= -4 && sec <= 4 && nsec >= 0 && nsec <= 2)
	return time.Unix(sec, nsec), sec, nsec
}

// C16, date range buckets: for every set of k matches with an arbitrary instant
// each and two ranges with arbitrary bounds, every bucket counts exactly the
// matches with start <= t < end (half open), and a nested count agrees.
//
// vf:harness property=C16 cases=k:1 cases.thorough=k:1..2 maxpaths=400000
// vf:bounds k matched documents (quick 1, thorough 2) with one instant each, two date ranges; instants and range bounds are seconds in [-4,4] plus nanoseconds in [0,2] around the Unix epoch (all order patterns, ties at nanosecond granularity included)
// vf:assume instants are built by time.Unix from arbitrary small (sec, nsec); time zones and the zero time as an open bound are outside
func VF_C16_DateRangeBuckets(k int) {
	src := vfDateSrc{}
	type inst struct{ s, n int64 }
	var ts []inst
	for i := 0; i < k; i++ {
		t, s, n := vfInstant("t")
		src.dates = append(src.dates, []time.Time{t})
		ts = append(ts, inst{s, n})
	}
	var bounds [4]inst
	var bt [4]time.Time
	for i := range bounds {
		bt[i], bounds[i].s, bounds[i].n = vfInstant("bound")
	}
	agg := DateRanges(src).AddRange(NewNamedDateRange("r1", bt[0], bt[1])).AddRange(NewNamedDateRange("r2", bt[2], bt[3]))
	aggs := search.Aggregations{"d": agg}
	it, err := collector.NewTopNCollector(10, 0, search.SortOrder{search.SortBy(search.DocumentScore())}).Collect(context.Background(), aggs, &vfDVSearcher{r: &vfDVMatchReader{docs: make([][]float64, k)}, n: k})
	vfAssert(err == nil, "no error")
	for {
		m, err := it.Next()
		vfAssert(err == nil, "no error while iterating")
		if m == nil {
			break
		}
	}
	bs := it.Aggregations().Buckets("d")
	vfAssert(len(bs) == 2, "one bucket per range")
	before := func(a, b inst) bool { return vfAny(a.s < b.s, vfAll(a.s == b.s, a.n < b.n)) }
	for j := 0; j < 2 && j < len(bs); j++ {
		want := uint64(0)
		for _, t := range ts {
			in := vfAll(!before(t, bounds[2*j]), before(t, bounds[2*j+1]))
			want += vfIte64(in, 1, 0)
		}
		vfAssert(bs[j].Count() == want, "a date range bucket counts exactly the matches with start <= t < end")
	}
}
