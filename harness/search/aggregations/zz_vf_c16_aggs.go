//go:build verif

package aggregations

import (
	"context"
	"math"

	"github.com/blugelabs/bluge/search"
	"github.com/blugelabs/bluge/search/collector"
)

// model corpus of matches: per hit a sort key, 0..2 numeric values, a weight and
// an optional one-byte keyword
type vfHit struct {
	key     []byte
	nums    []float64
	weight  []float64
	keyword [][]byte
}

var vfHits []vfHit // index = doc number - 1

type vfKeySrc struct{}

func (vfKeySrc) Fields() []string                     { return nil }
func (vfKeySrc) Value(m *search.DocumentMatch) []byte { return vfHits[m.Number-1].key }

type vfNumSrc struct{}

func (vfNumSrc) Fields() []string                          { return nil }
func (vfNumSrc) Numbers(m *search.DocumentMatch) []float64 { return vfHits[m.Number-1].nums }

type vfWeightSrc struct{}

func (vfWeightSrc) Fields() []string                          { return nil }
func (vfWeightSrc) Numbers(m *search.DocumentMatch) []float64 { return vfHits[m.Number-1].weight }

type vfKeywordSrc struct{}

func (vfKeywordSrc) Fields() []string                        { return nil }
func (vfKeywordSrc) Values(m *search.DocumentMatch) [][]byte { return vfHits[m.Number-1].keyword }

type vfSearcher struct{ n, pos int }

func (s *vfSearcher) Next(ctx *search.Context) (*search.DocumentMatch, error) {
	if s.pos >= s.n {
		return nil, nil
	}
	s.pos++
	d := ctx.DocumentMatchPool.Get()
	d.Number = uint64(s.pos)
	return d, nil
}
func (s *vfSearcher) DocumentMatchPoolSize() int { return 1 }
func (s *vfSearcher) Close() error               { return nil }

func vfSame(a, b float64) bool {
	return vfAny(math.Float64bits(a) == math.Float64bits(b), vfAll(math.IsNaN(a), math.IsNaN(b)))
}

// C16: aggregations see every match, whatever the requested size, offset, sort
// direction or search-after key: count = number of matches; sum / avg /
// weighted avg = the reference fold over the matched values in hit order; min /
// max = reference; terms buckets (single-valued keyword) = direct counts and the
// remainder accounts for every match not in a returned bucket; numeric range
// buckets = direct counts of (hit, value) pairs; a metric nested in a bucket =
// that metric over the bucket's hits.
//
// vf:harness property=C16 cases=kind:0..3;k:0..2;n:0..2;from:0..1;after:0..1|kind:0..2;k:3;n:1;from:0..1;after:0..1 cases.thorough=kind:0..3;k:0..3;n:0..2;from:0..1;after:0..1|kind:0..2;k:4;n:1..2;from:0..1;after:0..1 maxpaths=600000
// vf:bounds k matches (quick 0..3, thorough 0..4); each with an arbitrary one-byte sort key, 0..2 arbitrary non-NaN numeric values, an arbitrary weight, and a one-byte keyword or none; size n, offset from, optional search-after key (arbitrary byte), direction arbitrary; terms aggregation of size 1 with a nested sum; two numeric ranges with arbitrary bounds
// vf:assume value sources are harness types returning the hits' values (reading real doc values is C10/C08); float + and * uninterpreted (fold equalities hold for every interpretation), comparisons exact; cardinality and quantile sketches are fed through the same Consume path but their estimators are outside
func VF_C16_AllMatchesAggregated(kind int, k int, n int, from int, after int) {
	// kind 0: count/sum/avg/weighted avg (0..2 values per hit); 1: min/max (one value per hit);
	// 2: terms buckets with nested sum (0..1 value); 3: numeric ranges (0..1 value)
	vfHits = nil
	for i := 0; i < k; i++ {
		h := vfHit{key: []byte{vfByte("key")}, weight: []float64{vfFloat64("weight")}}
		nv := 1
		switch kind {
		case 0:
			nv = vfChoice("nvals", 3)
		case 2, 3:
			nv = vfChoice("nvals", 2)
		}
		for j := 0; j < nv; j++ {
			v := vfFloat64("val")
			vfAssume(!math.IsNaN(v))
			h.nums = append(h.nums, v)
		}
		if kind == 2 && vfBool("has-keyword") {
			h.keyword = [][]byte{{vfByte("kw")}}
		}
		vfHits = append(vfHits, h)
	}
	sort := search.SortBy(vfKeySrc{})
	if vfBool("desc") {
		sort.Desc()
	}
	order := search.SortOrder{sort}
	lo1, hi1, lo2, hi2 := vfFloat64("lo1"), vfFloat64("hi1"), vfFloat64("lo2"), vfFloat64("hi2")
	terms := NewTermsAggregation(vfKeywordSrc{}, 1)
	terms.AddAggregation("sum", Sum(vfNumSrc{}))
	aggs := search.Aggregations{"count": CountMatches()}
	switch kind {
	case 0:
		aggs["sum"] = Sum(vfNumSrc{})
		aggs["avg"] = Avg(vfNumSrc{})
		aggs["wavg"] = WeightedAvg(vfNumSrc{}, vfWeightSrc{})
	case 1:
		aggs["min"] = Min(vfNumSrc{})
		aggs["max"] = Max(vfNumSrc{})
	case 2:
		aggs["terms"] = terms
	case 3:
		aggs["rng"] = Ranges(vfNumSrc{}).AddRange(NamedRange("r1", lo1, hi1)).AddRange(NamedRange("r2", lo2, hi2))
	}
	var c *collector.TopNCollector
	if after == 1 {
		c = collector.NewTopNCollectorAfter(n, order, [][]byte{{vfByte("afterkey")}}, false)
	} else {
		c = collector.NewTopNCollector(n, from, order)
	}
	it, err := c.Collect(context.Background(), aggs, &vfSearcher{n: k})
	vfAssert(err == nil, "no error")
	b := it.Aggregations()

	vfAssert(b.Count() == uint64(k), "count equals the number of matches, whatever size / offset / paging key")
	// reference folds in hit order
	sum, wsum, ws, cnt := 0.0, 0.0, 0.0, 0.0
	min, max := math.Inf(1), math.Inf(-1)
	for _, h := range vfHits {
		for _, v := range h.nums {
			sum += v
			wsum += v * h.weight[0]
			ws += h.weight[0]
			cnt += 1
			if kind == 1 {
				min = vfMinF(min, v)
				max = vfMaxF(max, v)
			}
		}
	}
	if kind == 0 {
		vfAssert(vfSame(b.Metric("sum"), sum), "sum over all matched values")
		vfAssert(vfSame(b.Metric("avg"), sum/cnt), "average = sum / number of values")
		vfAssert(vfSame(b.Metric("wavg"), wsum/ws), "weighted average = sum(v*w) / sum(w)")
		return
	}
	if kind == 1 {
		vfAssert(vfSame(b.Metric("min"), min), "min over all matched values")
		vfAssert(vfSame(b.Metric("max"), max), "max over all matched values")
		return
	}
	if kind == 3 {
		rb := b.Buckets("rng")
		vfAssert(len(rb) == 2, "one bucket per range")
		d1, d2 := 0, 0
		for _, h := range vfHits {
			for _, v := range h.nums {
				if v >= lo1 && v < hi1 {
					d1++
				}
				if v >= lo2 && v < hi2 {
					d2++
				}
			}
		}
		vfAssert(rb[0].Count() == uint64(d1) && rb[1].Count() == uint64(d2), "range bucket counts equal direct counting of values in [low, high)")
		return
	}

	// terms: the single returned bucket (if any) has the direct count and nested sum; remainder covers the rest
	tc := b.Aggregation("terms").(*TermsCalculator)
	bs := tc.Buckets()
	vfAssert(len(bs) <= 1, "at most `size` buckets returned")
	inBuckets := 0
	for _, bk := range bs {
		name := bk.Name()
		direct := 0
		dsum := 0.0
		for _, h := range vfHits {
			if len(h.keyword) == 1 && string(h.keyword[0]) == name {
				direct++
				for _, v := range h.nums {
					dsum += v
				}
			}
		}
		vfAssert(bk.Count() == uint64(direct), "terms bucket count equals direct counting")
		vfAssert(vfSame(bk.Metric("sum"), dsum), "metric nested in a bucket is the metric over that bucket's matches")
		inBuckets += direct
		// the returned bucket is a most frequent term
		for _, h := range vfHits {
			if len(h.keyword) == 1 {
				other := 0
				for _, h2 := range vfHits {
					if len(h2.keyword) == 1 && h2.keyword[0][0] == h.keyword[0][0] {
						other++
					}
				}
				vfAssert(other <= direct, "the returned bucket is a most frequent term")
			}
		}
	}
	vfAssert(tc.Other()+inBuckets == k, "remainder + returned buckets account for every match (single-valued field)")

}

func vfMinF(a, b float64) float64 {
	if b < a {
		return b
	}
	return a
}

func vfMaxF(a, b float64) float64 {
	if b > a {
		return b
	}
	return a
}
