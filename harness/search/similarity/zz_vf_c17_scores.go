//go:build verif

package similarity

import (
	"math"

	segment "github.com/blugelabs/bluge_segment_api"

	"github.com/blugelabs/bluge/search"
)

type vfTermStats struct{ df uint64 }

func (t *vfTermStats) DocumentFrequency() uint64 { return t.df }

// C17 explanation faithfulness for the term scorer: for all statistics, boost,
// k1, b, term frequency and norm, Explain(...).Value is the very same
// computation as Score(...), the idf node's value is Idf(n, N), and the tree
// has the documented shape (idf, [boost], tf). Float arithmetic is
// uninterpreted: the equality holds for every interpretation of + - * / log,
// hence for IEEE-754 too.
//
// vf:harness property=C17 cases=boosted:0..1;domain:0..1
// vf:bounds all uint64 document frequency / count / total term frequency, all float64 boost (boosted case: any value other than 1; unboosted: exactly 1), k1, b, all int freq, all float64 norm (domain=0); domain=1 repeats the check on the statistics a real index produces (1 <= n <= N <= sumTTF, freq >= 1, 0.001 <= boost < 1000, 0.01 <= k1 < 100, 0.01 <= b <= 1), where a counterexample found under uninterpreted arithmetic also reproduces natively
// vf:assume float arithmetic and math.Log are uninterpreted functions (equalities proved this way hold for every interpretation)
func VF_C17_ExplainEqualsScore(boosted int, domain int) {
	sim := NewBM25SimilarityBK1(vfFloat64("b"), vfFloat64("k1"))
	cs := &vfStats{vfUint64("N"), vfUint64("sumTTF")}
	ts := &vfTermStats{vfUint64("n")}
	boost := 1.0
	if boosted == 1 {
		boost = vfFloat64("boost")
		vfAssume(boost != 1.0)
	}
	sc := sim.Scorer(boost, cs, ts).(*BM25Scorer)
	freq, norm := vfInt("freq"), vfFloat64("norm")
	if domain == 1 {
		vfAssume(ts.df >= 1 && ts.df <= cs.docs && cs.docs <= cs.sum && cs.sum < 1<<40)
		vfAssume(freq >= 1 && freq < 1<<20)
		vfAssume(sim.k1 >= 0.01 && sim.k1 < 100 && sim.b >= 0.01 && sim.b <= 1)
		vfAssume(boost >= 0.001 && boost < 1000)
		vfAssume(norm >= 0 && norm < 1e30)
	}
	score := sc.Score(freq, norm)
	ex := sc.Explain(freq, norm)
	vfAssert(math.Float64bits(ex.Value) == math.Float64bits(score), "Explain(...).Value is bit-for-bit the score")
	nchild := 2
	if boosted == 1 {
		nchild = 3
	}
	vfAssert(len(ex.Children) == nchild, "score node has idf, [boost], tf children")
	idf := ex.Children[0]
	vfAssert(math.Float64bits(idf.Value) == math.Float64bits(sim.Idf(ts.df, cs.docs)), "idf node carries Idf(n, N)")
	vfAssert(len(idf.Children) == 2 && math.Float64bits(idf.Children[0].Value) == math.Float64bits(float64(ts.df)) && math.Float64bits(idf.Children[1].Value) == math.Float64bits(float64(cs.docs)), "idf node's children are n and N")
	tf := ex.Children[nchild-1]
	vfAssert(len(tf.Children) == 5 && math.Float64bits(tf.Children[0].Value) == math.Float64bits(float64(freq)), "tf node lists freq, k1, b, dl, avgdl")
	if boosted == 1 {
		vfAssert(math.Float64bits(ex.Children[1].Value) == math.Float64bits(boost), "boost node carries the boost")
	}
	// the same scorer asked twice gives the same score (no hidden state)
	vfAssert(math.Float64bits(sc.Score(freq, norm)) == math.Float64bits(score), "Score is a pure function of its arguments")
}

type vfStats struct{ docs, sum uint64 }

func (c *vfStats) TotalDocumentCount() uint64    { return c.docs }
func (c *vfStats) DocumentCount() uint64         { return c.docs }
func (c *vfStats) SumTotalTermFrequency() uint64 { return c.sum }
func (c *vfStats) Merge(o segment.CollectionStats) {}

// C17 compound law: a compound query scores (sum of its matching parts, in
// order) times its own boost; with explanations on, the explanation's value is
// that same number and its tree is "sum of" / "boost * sum" over the parts'
// explanations. IEEE-754 addition and multiplication are exact here (SMT
// FloatingPoint theory).
//
// vf:harness property=C17 cases=k:1..3;boosted:0..1
// vf:bounds k = 1..3 constituents with arbitrary float64 scores; boost exactly 1 (boosted=0) or any other value (boosted=1)
// vf:assume float + and * uninterpreted (with x*1 = x): the equalities hold for every interpretation, IEEE-754 included
func VF_C17_CompositeLaw(k int, boosted int) {
	boost := 1.0
	if boosted == 1 {
		boost = vfFloat64("boost")
		vfAssume(boost != 1.0)
	}
	c := NewCompositeSumScorerWithBoost(boost)
	var parts []*search.DocumentMatch
	sum := 0.0
	for i := 0; i < k; i++ {
		s := vfFloat64("score")
		parts = append(parts, &search.DocumentMatch{Score: s, Explanation: search.NewExplanation(s, "part")})
		sum += s
	}
	want := sum * boost
	got := c.ScoreComposite(parts)
	vfAssert(vfSameF(got, want), "compound score = (sum of parts in order) * boost")
	ex := c.ExplainComposite(parts)
	vfAssert(vfSameF(ex.Value, got), "explanation value equals the compound score")
	// tree shape: every node's value is its formula applied to its children
	sumNode := ex
	if boost != 1 {
		vfAssert(len(ex.Children) == 2, "boosted: children are boost and sum")
		vfAssert(math.Float64bits(ex.Children[0].Value) == math.Float64bits(boost), "boost child carries the boost")
		sumNode = ex.Children[1]
		prod := sumNode.Value * ex.Children[0].Value
		vfAssert(vfSameF(ex.Value, prod), "boosted node value = boost * sum")
	}
	vfAssert(len(sumNode.Children) == k, "sum node has one child per part")
	acc := 0.0
	for i, ch := range sumNode.Children {
		vfAssert(ch == parts[i].Explanation, "children are the parts' explanations, in order")
		acc += ch.Value
	}
	vfAssert(vfSameF(sumNode.Value, acc), "sum node value = sum of its children")
}

// same float: identical bits, or both NaN
func vfSameF(a, b float64) bool {
	return vfAny(math.Float64bits(a) == math.Float64bits(b), vfAll(math.IsNaN(a), math.IsNaN(b)))
}

// Constant scorer: score and explanation agree.
//
// vf:harness property=C17
// vf:bounds all float64 constants
func VF_C17_ConstantScorer() {
	v := vfFloat64("c")
	c := ConstantScorer(v)
	vfAssert(math.Float64bits(c.Score(vfInt("f"), vfFloat64("n"))) == math.Float64bits(v), "constant score")
	vfAssert(math.Float64bits(c.Explain(1, 1).Value) == math.Float64bits(v), "constant explanation")
	vfAssert(math.Float64bits(c.ScoreComposite(nil)) == math.Float64bits(c.ExplainComposite(nil).Value), "constant composite")
}
