//go:build verif

package index

import (
	"bytes"

	segment "github.com/blugelabs/bluge_segment_api"
)

// model plugin with New: builds a model segment from model documents
func vfNewFromDocs(results []segment.Document, normCalc func(string, int) float32) (segment.Segment, uint64, error) {
	var docs []vfDoc
	for _, r := range results {
		d := r.(*vfDocument)
		docs = append(docs, vfDoc{id: []byte{d.id}, payload: d.payload})
	}
	return vfNewSegment(docs), uint64(16 * len(docs)), nil
}

func vfB2I(b bool) int {
	if b {
		return 1
	}
	return 0
}

func vfFullPlugins() map[string]map[uint32]*SegmentPlugin {
	return map[string]map[uint32]*SegmentPlugin{"vf": {1: {Type: "vf", Version: 1, New: vfNewFromDocs, Load: vfLoadSegment, Merge: vfMerge}}}
}

// C08 offline build: for every number of batches (zero included), batch size
// and merge fan-in, closing the offline writer never faults and leaves exactly
// one snapshot naming exactly one segment that holds every inserted document; every intermediate segment item is removed, every opened
// item is closed, and opening the result with the ordinary reader gives the
// same documents as the online writer would hold.
//
// vf:harness property=C08 cases=nb:0..3;per:1..2;fan:2..3 cases.thorough=nb:0..5;per:1..2;fan:2..4 goinline=1 chanslack=8
// vf:replace hash/crc32.Update vfChecksumUpdate
// vf:replace io.CopyN vfCopyN
// vf:bounds nb batches (quick 0..3, thorough 0..5) of `per` documents with arbitrary one-byte ids and payloads; merge fan-in 2..3 (4) (the writer's mergeMax field, default 10); model directory without faults
// vf:assume model segment plugin (New/Load/Merge contract); CRC-32 replaced by a rolling checksum; ice file formats v1/v2 and real directories are outside
func VF_C08_OfflineBuild(nb int, per int, fan int) {
	dir := vfNewDir()
	cfg := Config{SegmentType: "vf", SegmentVersion: 1, supportedSegmentPlugins: vfFullPlugins(), ValidateSnapshotCRC: true,
		DirectoryFunc: func() Directory { return dir }}
	w, err := OpenOfflineWriter(cfg)
	vfAssert(err == nil, "offline writer opens")
	w.mergeMax = fan
	var want []vfSeen
	for b := 0; b < nb; b++ {
		batch := NewBatch()
		for i := 0; i < per; i++ {
			d := &vfDocument{id: vfByte("id"), payload: vfByte("payload")}
			batch.Insert(d)
			want = append(want, vfSeen{id: d.id, payload: d.payload})
		}
		vfAssert(w.Batch(batch) == nil, "batch accepted")
	}
	vfAssert(w.Batch(NewBatch()) == nil, "an empty batch is accepted and changes nothing")
	err = w.Close()
	vfAssert(err == nil, "closing the offline writer succeeds (an empty corpus included)")
	nsnap, nseg := 0, 0
	for _, op := range dir.listOrder {
		if dir.has(op.kind, op.id) {
			if op.kind == ItemKindSnapshot {
				nsnap++
			} else {
				nseg++
			}
		}
	}
	vfAssert(nsnap == 1, "exactly one snapshot is left")
	if nb > 0 {
		vfAssert(nseg == 1, "exactly one segment is left, every intermediate one was removed")
	} else {
		vfAssert(nseg == 0, "an empty corpus leaves no segment")
	}
	for _, c := range dir.closers {
		vfAssert(c.closed == 1, "every item opened during the build is closed exactly once")
	}
	// the result opens with the ordinary reader and holds the inserted documents in order
	r, err := OpenReader(cfg)
	vfAssert(err == nil && r != nil, "the built index opens")
	got := vfContent(r)
	vfAssert(len(got) == len(want), "the built index holds exactly the inserted documents")
	// same multiset of documents (index order may differ: merge rounds append their
	// output behind the segments not yet merged; ties in a sort are layout dependent)
	for _, x := range want {
		nw, ng := 0, 0
		for _, y := range want {
			nw += vfB2I(x == y)
		}
		for _, y := range got {
			ng += vfB2I(x == y)
		}
		vfAssert(nw == ng, "every inserted document is present with its stored fields, as often as it was inserted")
	}
	cnt, _ := r.Count()
	vfAssert(cnt == uint64(len(want)), "Count equals the number of inserted documents")
	_ = r.Close()
}

// C08 postings across layouts: the same logical documents laid out as one, two
// or three segments (any split points), with other documents deleted around
// them, give the same term postings through the real postings iterator under
// any Next/Advance driver: exactly the live documents holding the term, in
// order, mapped back to their logical identity.
//
// vf:harness property=C08 cases=ndocs:1..4;nseg:1..3;calls:2..3 cases.thorough=ndocs:1..5;nseg:1..3;calls:3..4 goinline=1 chanslack=8 maxpaths=600000
// vf:bounds ndocs logical documents (quick 1..4, thorough 5) each holding the term or not (arbitrary payload byte compared with an arbitrary term byte) and live or deleted (arbitrary); nseg segments with arbitrary split points (segments need a live document, as in every root); driver of 2..3 (4) calls, each Next or Advance to the global number of an arbitrary document position at or beyond the last result
// vf:assume model segments and postings lists (the except-bitmap contract of Dictionary.PostingsList); Advance targets move forward
func VF_C08_PostingsAcrossLayouts(ndocs int, nseg int, calls int) {
	if nseg > ndocs {
		vfAssert(true, "more segments than documents")
		return
	}
	term := vfByte("term")
	type ldoc struct {
		id, payload byte
		live        bool
	}
	var docs []ldoc
	for i := 0; i < ndocs; i++ {
		docs = append(docs, ldoc{id: byte(i + 1), payload: vfByte("payload"), live: !vfBool("deleted")})
	}
	// split points: nseg-1 increasing cut positions in 1..ndocs-1
	cuts := []int{0}
	prev := 0
	for s := 1; s < nseg; s++ {
		c := prev + 1 + vfChoice("cut", ndocs-prev-(nseg-s))
		cuts = append(cuts, c)
		prev = c
	}
	cuts = append(cuts, ndocs)
	st := &vfIdx{}
	w := &Writer{config: Config{supportedSegmentPlugins: vfPlugins()}, segPlugin: vfPlugin()}
	root := &Snapshot{parent: w, epoch: 5, refs: 1}
	var running uint64
	var global []uint64 // global number of each logical doc
	for s := 0; s < nseg; s++ {
		var sd []vfDoc
		var del []uint32
		live := 0
		for i := cuts[s]; i < cuts[s+1]; i++ {
			sd = append(sd, vfDoc{id: []byte{docs[i].id}, payload: docs[i].payload})
			if !docs[i].live {
				del = append(del, uint32(i-cuts[s]))
			} else {
				live++
			}
			global = append(global, running+uint64(i-cuts[s]))
		}
		vfAssume(live > 0)
		ss := &segmentSnapshot{id: uint64(10 + s), segment: &segmentWrapper{Segment: vfNewSegment(sd), refCounter: noOpRefCounter{}}}
		if len(del) > 0 {
			ss.deleted = vfBitmapOf(del)
		}
		root.segment = append(root.segment, ss)
		root.offsets = append(root.offsets, running)
		running += uint64(len(sd))
	}
	w.root = root
	st.w = w
	vfCheckRI(root)

	it, err := root.PostingsIterator([]byte{term}, "p", false, false, false)
	vfAssert(err == nil, "iterator opens")
	// reference: live docs holding the term, by position
	matches := func(i int) bool { return vfAll(docs[i].live, docs[i].payload == term) }
	lastPos := -1
	for k := 0; k < calls; k++ {
		targetPos := 0
		var p segment.Posting
		if k > 0 && vfBool("advance") {
			targetPos = lastPos + 1 + vfChoice("target", ndocs-lastPos)
			if targetPos >= ndocs {
				break
			}
			p, err = it.Advance(global[targetPos])
		} else {
			p, err = it.Next()
		}
		vfAssert(err == nil, "no error")
		// expected: first matching position > lastPos and >= targetPos
		exp := -1
		for i := ndocs - 1; i >= 0; i-- {
			if i > lastPos && i >= targetPos && matches(i) {
				exp = i
			}
		}
		exp = vfConcretize(exp)
		if p == nil {
			vfAssert(exp < 0, "the iterator ends only when no live document with the term is left")
			break
		}
		vfAssert(exp >= 0, "a returned posting is a live document holding the term")
		if exp >= 0 {
			vfAssert(p.Number() == global[exp], "the next posting is the next live document with the term, wherever the segment boundaries fall")
			var seenID byte
			_ = root.VisitStoredFields(p.Number(), func(field string, value []byte) bool {
				if field == "_id" {
					seenID = value[0]
				}
				return true
			})
			vfAssert(seenID == docs[exp].id, "the global number maps back to the same logical document")
			lastPos = exp
		}
	}
	// counts are layout independent
	cnt, _ := root.Count()
	liveN := 0
	for _, d := range docs {
		if d.live {
			liveN++
		}
	}
	vfAssert(cnt == uint64(liveN), "Count is the number of live documents in every layout")
	_ = bytes.Equal
}

// C08 query optimisations: over any layout of the same logical documents, the
// optimised evaluation of a conjunction / disjunction of term postings
// ("conjunction", "conjunction:unadorned", "disjunction:unadorned") returns
// exactly the documents the plain evaluation returns, whether single-posting
// lists are 1-hit encoded or not, and never modifies a segment's own postings.
//
// vf:harness property=C08 cases=kind:0..2;ndocs:1..3;nseg:1..2;nterms:2..3 cases.thorough=kind:0..2;ndocs:1..4;nseg:1..3;nterms:2..3 goinline=1 chanslack=8 maxpaths=600000
// vf:bounds ndocs documents (quick 1..3, thorough 4) each holding any subset of nterms terms (2..3) and live or deleted, laid out in nseg segments with arbitrary split points; 1-hit encoding of single-posting lists on or off; kind 0 = conjunction (in-place intersection), 1 = conjunction:unadorned, 2 = disjunction:unadorned
// vf:assume model postings iterators implement the OptimizablePostingsIterator contract as ice does (actual bitmap = the list's own bitmap when nothing is excluded; ReplaceActual restricts iteration; single-posting lists may be 1-hit encoded); scores/frequencies are outside
func VF_C08_OptimizeEquivalence(kind int, ndocs int, nseg int, nterms int) {
	if nseg > ndocs {
		vfAssert(true, "more segments than documents")
		return
	}
	vfOneHit = vfBool("one-hit-encoding")
	vfAllLists = nil
	type ldoc struct {
		has  []bool
		live bool
	}
	var docs []ldoc
	for i := 0; i < ndocs; i++ {
		d := ldoc{live: !vfBool("deleted")}
		for t := 0; t < nterms; t++ {
			d.has = append(d.has, vfBool("has-term"))
		}
		docs = append(docs, d)
	}
	cuts := []int{0}
	prev := 0
	for s := 1; s < nseg; s++ {
		c := prev + 1 + vfChoice("cut", ndocs-prev-(nseg-s))
		cuts = append(cuts, c)
		prev = c
	}
	cuts = append(cuts, ndocs)
	w := &Writer{config: Config{supportedSegmentPlugins: vfPlugins(), OptimizeConjunction: true, OptimizeConjunctionUnadorned: true, OptimizeDisjunctionUnadorned: true}, segPlugin: vfPlugin()}
	root := &Snapshot{parent: w, epoch: 5, refs: 1}
	var running uint64
	var global []uint64
	for s := 0; s < nseg; s++ {
		var sd []vfDoc
		var del []uint32
		live := 0
		for i := cuts[s]; i < cuts[s+1]; i++ {
			// the document's terms are encoded in its payload bits; field "b<k>" matches bit k
			var pay byte
			for t, h := range docs[i].has {
				if h {
					pay |= 1 << uint(t)
				}
			}
			sd = append(sd, vfDoc{id: []byte{byte(i + 1)}, payload: pay})
			if !docs[i].live {
				del = append(del, uint32(i-cuts[s]))
			} else {
				live++
			}
			global = append(global, running+uint64(i-cuts[s]))
		}
		vfAssume(live > 0)
		ss := &segmentSnapshot{id: uint64(10 + s), segment: &segmentWrapper{Segment: vfNewSegment(sd), refCounter: noOpRefCounter{}}}
		if len(del) > 0 {
			ss.deleted = vfBitmapOf(del)
		}
		root.segment = append(root.segment, ss)
		root.offsets = append(root.offsets, running)
		running += uint64(len(sd))
	}
	w.root = root
	var its []*postingsIterator
	for t := 0; t < nterms; t++ {
		it, err := root.PostingsIterator([]byte{byte(t)}, "bit", false, false, false)
		vfAssert(err == nil, "iterator opens")
		its = append(its, it.(*postingsIterator))
	}
	var saved [][]uint32
	for _, pl := range vfAllLists {
		saved = append(saved, pl.all.ToArray())
	}
	kinds := []string{"conjunction", "conjunction:unadorned", "disjunction:unadorned"}
	var octx segment.OptimizableContext
	for _, it := range its {
		var err error
		octx, err = it.Optimize(kinds[kind], octx)
		vfAssert(err == nil && octx != nil, "optimisation applies")
	}
	opt, err := octx.Finish()
	vfAssert(err == nil, "optimisation finishes")
	want := func(i int) bool {
		if !docs[i].live {
			return false
		}
		all, any := true, false
		for _, h := range docs[i].has {
			all = all && h
			any = any || h
		}
		if kind == 2 {
			return any
		}
		return all
	}
	drain := func(it segment.PostingsIterator) []uint64 {
		var out []uint64
		for {
			p, err := it.Next()
			vfAssert(err == nil, "no error")
			if p == nil {
				return out
			}
			out = append(out, p.Number())
		}
	}
	var exp []uint64
	for i := range docs {
		if want(i) {
			exp = append(exp, global[i])
		}
	}
	same := func(got []uint64, what string) {
		vfAssert(len(got) == len(exp), what+": same number of documents as the plain evaluation")
		for i := range got {
			if i < len(exp) {
				vfAssert(got[i] == exp[i], what+": same documents as the plain evaluation")
			}
		}
	}
	if kind == 0 {
		vfAssert(opt == nil, "in-place conjunction optimisation returns no iterator")
		// every term iterator now yields a superset of the intersection restricted to its own postings;
		// the leap-frog over them yields exactly the intersection
		c0 := drain(its[0])
		for _, g := range exp {
			found := false
			for _, x := range c0 {
				if x == g {
					found = true
				}
			}
			vfAssert(found, "conjunction: no matching document is lost by the in-place intersection")
		}
		for _, x := range c0 {
			isDocOfTerm0 := false
			for i := range docs {
				if global[i] == x && docs[i].live && docs[i].has[0] {
					isDocOfTerm0 = true
				}
			}
			vfAssert(isDocOfTerm0, "conjunction: a term iterator still yields only live documents holding its term")
		}
	} else {
		if opt == nil {
			vfFail("unadorned optimisation did not produce an iterator")
		}
		// wrap like the term searcher does: a postingsIterator over per-segment iterators
		same(drain(opt), kinds[kind])
	}
	for i, pl := range vfAllLists {
		now := pl.all.ToArray()
		vfAssert(len(now) == len(saved[i]), "a segment's own postings are never modified by an optimisation")
		for j := range now {
			if j < len(saved[i]) {
				vfAssert(now[j] == saved[i][j], "a segment's own postings are never modified by an optimisation")
			}
		}
	}
}
