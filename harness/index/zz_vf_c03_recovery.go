//go:build verif

package index

import (
	"bytes"
)

// A directory image after a crash: up to three snapshot files (epochs 3, 5, 8),
// each independently intact, torn (truncated), damaged in its trailer, absent,
// or intact but naming a segment file that is missing.
type vfImage struct {
	dir      *vfDir
	epochs   []uint64
	loadable []bool
	content  [][]vfSeen // logical content of each snapshot
}

const (
	vfItemIntact = iota
	vfItemTruncated
	vfItemBadTrailer
	vfItemSegmentMissing
	vfItemAbsent
	vfItemKinds
)

func vfCrashImage(nsnap int) *vfImage {
	img := &vfImage{dir: vfNewDir()}
	segID := uint64(20)
	for i := 0; i < nsnap; i++ {
		epoch := []uint64{3, 5, 8}[i]
		d := vfDoc{id: []byte{vfByte("id")}, payload: vfByte("payload")}
		seg := vfNewSegment([]vfDoc{d})
		segID++
		snap := &Snapshot{epoch: epoch, segment: []*segmentSnapshot{{id: segID, segment: &segmentWrapper{Segment: seg}}}}
		var sb, gb bytes.Buffer
		_, _ = seg.WriteTo(&gb, nil)
		_, err := snap.WriteTo(&sb, nil)
		vfAssert(err == nil, "snapshot encodes")
		data := sb.Bytes()
		kind := vfChoice("item-state", vfItemKinds)
		ok := true
		switch kind {
		case vfItemIntact:
			img.dir.put(ItemKindSegment, segID, gb.Bytes())
		case vfItemTruncated:
			cut := 1 + vfChoice("cut", len(data))
			data = data[:len(data)-cut]
			img.dir.put(ItemKindSegment, segID, gb.Bytes())
			ok = false
		case vfItemBadTrailer:
			flip := vfByte("flip")
			vfAssume(flip != 0)
			data = append([]byte(nil), data...)
			data[len(data)-1] ^= flip
			img.dir.put(ItemKindSegment, segID, gb.Bytes())
			ok = false
		case vfItemSegmentMissing:
			ok = false
		case vfItemAbsent:
			continue
		}
		img.dir.put(ItemKindSnapshot, epoch, data)
		img.epochs = append(img.epochs, epoch)
		img.loadable = append(img.loadable, ok)
		img.content = append(img.content, []vfSeen{{id: d.id[0], payload: d.payload}})
	}
	return img
}

func (img *vfImage) newestLoadable() int {
	best := -1
	for i, ok := range img.loadable {
		if ok {
			best = i
		}
	}
	return best
}

func vfRecoveryConfig(dir *vfDir) Config {
	return Config{
		SegmentType: "vf", SegmentVersion: 1, supportedSegmentPlugins: vfPlugins(), ValidateSnapshotCRC: true,
		DirectoryFunc: func() Directory { return dir },
	}
}

// C03 reader side: opening a crash image never faults, fails only if no
// snapshot loads, and exposes exactly the newest loadable snapshot.
//
// vf:harness property=C03 cases=nsnap:0..3 goinline=1 chanslack=8 maxpaths=400000
// vf:replace hash/crc32.Update vfChecksumUpdate
// vf:replace io.CopyN vfCopyN
// vf:bounds up to three snapshot files (epochs 3,5,8), one single-document segment each with arbitrary id/payload; each file intact, truncated by any number of bytes, damaged in its last trailer byte by any non-zero flip, intact but with its segment file missing, or absent
// vf:assume CRC-32 replaced by a rolling checksum (a truncation or flip that happens to keep the checksum is treated like the real CRC would treat a collision: outside); model directory and plugin; which torn states a real crash can produce is outside (any of them is accepted here)
func VF_C03_OpenReaderSelection(nsnap int) {
	img := vfCrashImage(nsnap)
	r, err := OpenReader(vfRecoveryConfig(img.dir))
	best := img.newestLoadable()
	if best < 0 {
		vfAssert(err != nil && r == nil, "no loadable snapshot: opening fails with an error (and does not fault)")
		return
	}
	vfAssert(err == nil && r != nil, "opening succeeds whenever some snapshot is loadable")
	vfAssert(r.epoch == img.epochs[best], "the reader is the newest loadable snapshot")
	got := vfContent(r)
	vfAssert(len(got) == len(img.content[best]), "the reader exposes exactly that snapshot's documents")
	for i := range got {
		if i < len(img.content[best]) {
			vfAssert(got[i] == img.content[best][i], "document ids and stored fields of the recovered snapshot")
		}
	}
	vfCheckRI(r)
	_ = r.Close()
	for _, c := range img.dir.closers {
		vfAssert(c.closed == 1, "every item opened during recovery is released once the reader is closed")
	}
}

// C03 writer side: loadSnapshots makes the newest loadable snapshot the root,
// continues the epoch numbering above it, tells the deletion policy about
// exactly the loadable snapshots oldest first, and releases the older ones.
//
// vf:harness property=C03 cases=nsnap:0..3;keep:1..2 goinline=1 chanslack=8 maxpaths=400000
// vf:replace hash/crc32.Update vfChecksumUpdate
// vf:replace io.CopyN vfCopyN
// vf:bounds crash images as above; retention count 1..2
// vf:assume as above; OpenWriter's goroutine start-up and its next-segment-id computation are outside tier 1
func VF_C03_LoadSnapshots(nsnap int, keep int) {
	img := vfCrashImage(nsnap)
	policy := NewKeepNLatestDeletionPolicy(keep)
	w := &Writer{config: vfRecoveryConfig(img.dir), directory: img.dir, deletionPolicy: policy, segPlugin: vfPlugin()}
	w.root = &Snapshot{parent: w, refs: 1, creator: "NewChill"}
	last, next, err := w.loadSnapshots()
	best := img.newestLoadable()
	if len(img.epochs) > 0 && best < 0 {
		vfAssert(err != nil, "snapshots exist but none loads: opening refuses instead of starting from scratch")
		return
	}
	vfAssert(err == nil, "recovery succeeds")
	if best < 0 {
		vfAssert(last == 0 && next == 1, "empty directory: a fresh index")
		vfAssert(len(w.root.segment) == 0, "fresh index is empty")
		return
	}
	vfAssert(last == img.epochs[best], "last persisted epoch is the newest loadable one")
	vfAssert(next > img.epochs[best], "the next epoch is above every loaded epoch")
	vfAssert(w.root.epoch == img.epochs[best], "the root is the newest loadable snapshot")
	got := vfContent(w.root)
	vfAssert(len(got) == 1 && got[0] == img.content[best][0], "the recovered writer exposes exactly that snapshot")
	vfCheckRI(w.root)
	// the policy has seen the loadable snapshots, oldest first
	var seen []uint64
	seen = append(seen, policy.deletableEpochs...)
	seen = append(seen, policy.liveEpochs...)
	k := 0
	for i, ok := range img.loadable {
		if ok {
			vfAssert(k < len(seen) && seen[k] == img.epochs[i], "deletion policy told about each loadable snapshot, oldest first")
			k++
		}
	}
	vfAssert(k == len(seen), "deletion policy told about nothing else")
	// older loaded snapshots were released, the root's segments stay open
	open := 0
	for _, c := range img.dir.closers {
		if c.closed == 0 {
			open++
		}
	}
	vfAssert(open == len(w.root.segment), "only the root's segment files stay open after recovery")
	// the recovered state accepts further batches (C01's step applies to it)
	st := &vfIdx{w: w, docs: [][]vfADoc{{{id: got[0].id, payload: got[0].payload, live: true}}}}
	sp := vfMakeBatch(1, 1, true)
	vfIntroduce(st, sp, next)
	r, _ := w.Reader()
	vfExpect(r, vfFlatten(vfApply(st.docs, sp)), "a batch applied to the recovered writer")
	_ = r.Close()
}
