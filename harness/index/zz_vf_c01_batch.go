//go:build verif

package index

import (
	"github.com/RoaringBitmap/roaring"
	segment "github.com/blugelabs/bluge_segment_api"
)

type vfDocument struct {
	id      byte
	payload byte
}

func (d *vfDocument) Analyze()                          {}
func (d *vfDocument) EachField(vf segment.VisitField) {}

// vfBatch describes one batch at the abstract level and builds the real one.
type vfBatchSpec struct {
	docs    []vfADoc // documents added (Insert or Update)
	named   []byte   // ids named by Update/Delete operations
	batch   *Batch
	segment *vfSegment // the segment the plugin would build for docs (nil if none)
}

// vfMakeBatch builds a batch of nu documents and nd deletes through the real
// Batch API. Each document is an Update of its own id or a plain Insert
// (symbolic choice); delete ids are arbitrary.
func vfMakeBatch(nu, nd int, distinct bool) *vfBatchSpec {
	sp := &vfBatchSpec{batch: NewBatch()}
	var docs []vfDoc
	for i := 0; i < nu; i++ {
		d := &vfDocument{id: vfByte("batch-id"), payload: vfByte("batch-payload")}
		if vfBool("is-update") {
			sp.batch.Update(vfIDTerm(d.id), d)
			sp.named = append(sp.named, d.id)
		} else {
			sp.batch.Insert(d)
		}
		sp.docs = append(sp.docs, vfADoc{id: d.id, payload: d.payload, live: true})
		docs = append(docs, vfDoc{id: []byte{d.id}, payload: d.payload})
	}
	for i := 0; i < nd; i++ {
		id := vfByte("delete-id")
		sp.batch.Delete(vfIDTerm(id))
		sp.named = append(sp.named, id)
	}
	if distinct {
		// ids named by two operations of one batch are the listed known finding
		for i := range sp.named {
			for j := 0; j < i; j++ {
				vfAssume(sp.named[i] != sp.named[j])
			}
		}
		for i := range sp.docs {
			for j := 0; j < i; j++ {
				vfAssume(sp.docs[i].id != sp.docs[j].id)
			}
		}
	}
	vfAssert(len(sp.batch.documents) == nu && len(sp.batch.ids) == len(sp.named), "Batch records every operation")
	if nu > 0 {
		sp.segment = vfNewSegment(docs)
	}
	return sp
}

// vfApply is the abstract batch semantics: remove every live document whose id
// the batch names, then add the batch's documents.
func vfApply(docs [][]vfADoc, sp *vfBatchSpec) [][]vfADoc {
	var out [][]vfADoc
	for _, seg := range docs {
		var ns []vfADoc
		for _, d := range seg {
			for _, id := range sp.named {
				if d.id == id {
					d.live = false
				}
			}
			ns = append(ns, d)
		}
		out = append(out, ns)
	}
	if len(sp.docs) > 0 {
		out = append(out, append([]vfADoc(nil), sp.docs...))
	}
	return out
}

// vfIntroduce does what Writer.Batch + prepareSegment do up to the hand-off to
// the introducer, with the optimistic obsoletes computed against an arbitrary
// subset of the root's segments (staleness), then runs the real
// introduceSegment.
func vfIntroduce(st *vfIdx, sp *vfBatchSpec, epoch uint64) *segmentIntroduction {
	w := st.w
	intro := &segmentIntroduction{
		id:        w.nextSegmentID + 1,
		idTerms:   sp.batch.ids,
		obsoletes: map[uint64]*roaring.Bitmap{},
		applied:   make(chan error, 1),
	}
	w.nextSegmentID++
	if sp.segment != nil {
		intro.data = &segmentWrapper{Segment: sp.segment, refCounter: noOpRefCounter{}}
	}
	for _, ss := range w.root.segment {
		if vfBool("seen-by-optimistic-pass") {
			delta, err := ss.segment.DocsMatchingTerms(sp.batch.ids)
			vfAssert(err == nil, "model segment answers")
			intro.obsoletes[ss.id] = delta
		}
	}
	err := w.introduceSegment(intro, epoch)
	vfAssert(err == nil, "introduction succeeds")
	return intro
}

func vfAppliedClosed(intro *segmentIntroduction) bool {
	select {
	case err, ok := <-intro.applied:
		return !ok && err == nil
	default:
		return false
	}
}

// C01: one batch from an arbitrary valid index state. For every root, every
// batch and every staleness of the optimistic pass, the reader obtained
// afterwards exposes exactly the abstract index (Count, match-all, lookup by
// id, stored fields), and the representation invariant holds again — so the
// statement composes over histories of any length.
//
// vf:harness property=C01 cases=nseg:0..2;dp:1;nu:0..2;nd:0..1|nseg:1;dp:2;nu:0..1;nd:0..1|nseg:2;dp:2;nu:0;nd:1 cases.thorough=nseg:0..2;dp:1;nu:0..2;nd:0..1|nseg:1;dp:2;nu:0..1;nd:0..1|nseg:2;dp:2;nu:0..1;nd:0..1|nseg:1;dp:3;nu:0..1;nd:0..1 goinline=1 chanslack=8 maxpaths=600000
// vf:bounds root of nseg segments with dp docs each (quick: up to 2x2 with batches of <= 1 document + 1 delete, or 2 documents on smaller roots; thorough: all of 2x2 with <= 2 documents + 2 deletes, 3x1, 1x3), arbitrary one-byte ids (collisions included) and payloads, arbitrary deleted sets leaving a live doc per segment, persisted or in-memory; batch of nu <= 2 documents (each Insert or Update of its own id) and nd deletes with arbitrary ids, ids named by the batch pairwise distinct and batch documents with distinct ids; optimistic obsoletes computed for an arbitrary subset of root segments
// vf:assume model segment plugin (DocsMatchingTerms independent of deletions, as ice implements it); goroutines of postingsIteratorAll run inline at spawn and their channel sends do not block (results are consumed by index, so the order is immaterial)
func VF_C01_StepBatch(nseg int, dp int, nu int, nd int) {
	st := vfArbitraryRoot(nseg, dp, 5)
	vfCheckRI(st.w.root)
	sp := vfMakeBatch(nu, nd, true)
	intro := vfIntroduce(st, sp, 6)
	want := vfApply(st.docs, sp)

	r, err := st.w.Reader()
	vfAssert(err == nil && r != nil, "a reader can be obtained")
	vfAssert(r.epoch == 6, "the new root carries the introduction epoch")
	vfCheckRI(r)
	vfExpect(r, vfFlatten(want), "after the batch")
	// lookup by every id the batch touched
	for _, d := range sp.docs {
		got := vfLookupID(r, d.id)
		n := 0
		for _, x := range vfFlatten(want) {
			if x.live && x.id == d.id {
				n++
			}
		}
		vfAssert(len(got) == n, "lookup by id finds exactly the live documents with that id")
	}
	for _, id := range sp.named {
		got := vfLookupID(r, id)
		n := 0
		var pay byte
		for _, x := range vfFlatten(want) {
			if x.live && x.id == id {
				n++
				pay = x.payload
			}
		}
		vfAssert(len(got) == n, "an id named by the batch has exactly the documents the batch itself added for it")
		vfAssert(n <= 1, "an id written through Update/Delete has at most one live document")
		if n == 1 && len(got) == 1 {
			vfAssert(got[0] == pay, "the live document of an updated id is the new version")
		}
	}
	vfAssert(vfAppliedClosed(intro), "the batch is reported applied (channel closed without error)")
	_ = r.Close()
}

// The listed known finding: the same id named by two operations of one batch
// leaves two live documents (ids within one batch are not de-duplicated).
//
// vf:harness property=C01 expect=F5 goinline=1 chanslack=8
// vf:bounds empty root; a batch with two Update operations on arbitrary ids (equal ids allowed)
func VF_C01_DupIdProbe() {
	st := vfArbitraryRoot(0, 0, 5)
	sp := vfMakeBatch(2, 0, false)
	vfAssume(len(sp.named) == 2)
	vfIntroduce(st, sp, 6)
	r, _ := st.w.Reader()
	for _, id := range sp.named {
		vfAssert(len(vfLookupID(r, id)) == 1, "an id written only through Update has exactly one live document (same id twice in one batch)")
	}
}
