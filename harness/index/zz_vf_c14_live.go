//go:build verif

package index

// C14 on the real writer (tier 2): transient directory faults while the three
// loops run. Every Persist/Load/Remove/List issued after opening may fail
// (symbolic choice per call, at most nf failures in the run). Demanded:
//   - nothing panics or hangs (engine monitors; a state where every goroutine
//     is blocked is reported as a hang);
//   - a safe Batch fails only if a directory operation failed, and then the
//     asynchronous error callback has fired;
//   - readers keep answering according to the batches applied so far (a batch
//     whose call returned the error is applied, only not yet durable);
//   - every crash image during and after the faults reopens to a prefix of the
//     history that contains every acknowledged batch (a failed item never
//     looks complete);
//   - the next acknowledgement covers everything applied before, including
//     the batches whose own call returned the error; Close succeeds and the
//     index reopens with everything acknowledged.
//
// vf:harness property=C14 cases=nf:0..1;order:0..1 cases.thorough=nf:1..2;order:0..1 sched=1 schedbudget=1 preempt=0 goinline=1 chanslack=8 deadlock=violation clock=zero maxpaths=400000 replay=model-only diff=off
// vf:replace hash/crc32.Update vfChecksumUpdate
// vf:replace io.CopyN vfCopyN
// vf:replace (*github.com/RoaringBitmap/roaring.Bitmap).ReadFrom vfRoaringReadFrom
// vf:replace (*github.com/RoaringBitmap/roaring.Bitmap).ToBytes vfRoaringToBytes
// vf:bounds default schedule: lowest goroutine id first or longest-waiting first (FIFO), thorough also highest id first; history: update id 1, update id 2, then (faults cleared) update id 3, arbitrary payloads, one caller, safe mode, fresh model directory; at most nf failing directory operations (quick 1, thorough 2) placed anywhere by symbolic choice (Persist fails before any byte; Load, Remove, List fail outright); the real loops as cooperative goroutines with at most one departure from the default schedule at a blocking point; crash images as in VF_C02_AckedBatchIsDurable
// vf:assume as VF_C02_AckedBatchIsDurable; a Persist that fails leaves no item (directory_fs.go removes the partial file — that clean-up itself is C13's subject); sticky faults (a directory that never recovers) make the persister retry forever and are outside
func VF_C14_LiveTransientFaults(nf int, order int) {
	vfSchedOrder(order)
	wd := &vfWorld{dir: vfNewDir(), states: [][]vfSeen{nil}}
	wd.install()
	cfg := vfLiveConfig(wd.dir, false)
	asyncErrs := 0
	cfg.AsyncError = func(err error) {
		vfAssert(err != nil, "the asynchronous error callback carries an error")
		asyncErrs++
	}
	w, err := OpenWriter(cfg)
	vfAssert(err == nil && w != nil, "OpenWriter succeeds on an empty directory")
	wd.dir.faults, wd.dir.faultBudgeted, wd.dir.faultsLeft = true, true, nf
	steps := []vfStep{{op: 0, id: 1, payload: vfByte("payload")}, {op: 0, id: 2, payload: vfByte("payload")}, {op: 0, id: 3, payload: vfByte("payload")}}
	failed := 0
	for k, st := range steps {
		if k == len(steps)-1 {
			wd.dir.faults = false // the fault clears
		}
		wd.states = append(wd.states, wd.next(st))
		wd.issued++
		b := vfStepBatch(st)
		n := wd.issued
		b.SetPersistedCallback(func(err error) {
			if err == nil {
				if wd.acked < n {
					wd.acked = n
				}
				wd.crashAt(wd.cloneDir("", 0), "crash right after the persisted-callback")
			}
		})
		err := w.Batch(b)
		if err != nil {
			failed++
			vfAssert(wd.dir.faultsHit > 0, "a safe Batch fails only if a directory operation failed")
			vfAssert(asyncErrs > 0, "when a Batch is told about a persist failure the asynchronous error callback has fired")
		} else {
			wd.acked = wd.issued
			wd.crashAt(wd.cloneDir("", 0), "crash right after Batch returned")
		}
		r, rerr := w.Reader()
		vfAssert(rerr == nil && r != nil, "a reader can be obtained during and after faults")
		vfReaderBacked(r, "a reader obtained during or after faults")
		vfAssert(vfSameContent(vfSortedContent(r), wd.states[wd.issued]), "readers answer according to the batches applied so far")
		_ = r.Close()
	}
	vfAssert(wd.acked == wd.issued, "once the fault cleared the next acknowledgement covers every batch applied before")
	vfAssert(failed <= wd.dir.faultsHit, "no more failed calls than failed directory operations")
	vfAssert(w.Close() == nil, "Close succeeds")
	for _, c := range wd.dir.closers {
		vfAssert(c.closed == 1, "every item loaded from the directory is released exactly once, also when persists failed in between")
	}
	wd.crashAt(wd.cloneDir("", 0), "reopen after Close")
}
