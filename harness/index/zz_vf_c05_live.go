//go:build verif

package index

import "sync"

// C05 on the real writer (tier 2): the part of linearizability that needs the
// goroutine loops. A Reader obtained after Batch returned reflects that batch,
// in safe and unsafe mode, whatever the introducer/persister/merger are doing
// at that moment; a Reader held across a later batch keeps its content.
//
// vf:harness property=C05 cases=unsafe:0..1;order:0..1 cases.thorough=unsafe:0..1;order:0..2 sched=1 schedbudget=1 schedbudget.thorough=2 preempt=1 preempt.thorough=2 schedtotal=1 schedtotal.thorough=2 goinline=1 chanslack=8 deadlock=violation clock=zero maxpaths=400000 replay=model-only diff=off
// vf:replace hash/crc32.Update vfChecksumUpdate
// vf:replace io.CopyN vfCopyN
// vf:replace (*github.com/RoaringBitmap/roaring.Bitmap).ReadFrom vfRoaringReadFrom
// vf:replace (*github.com/RoaringBitmap/roaring.Bitmap).ToBytes vfRoaringToBytes
// vf:bounds default schedule: lowest goroutine id first or longest-waiting first (FIFO), thorough also highest id first; one caller: update id 1, reader, overwrite id 1, reader (arbitrary payloads), safe and unsafe batch mode, fresh model directory; the real OpenWriter/Batch/loops as cooperative goroutines; at most schedtotal departures from the default schedule anywhere along the run, each either another runnable goroutine at a blocking point (at most schedbudget of them) or a switch before a synchronisation operation — channel operation, Lock/Unlock, WaitGroup, Once — although the running goroutine could continue (at most preempt of them)
// vf:assume sequentially consistent goroutines that switch at synchronisation operations and I/O seams (directory Persist/Remove, plugin Merge) (sufficient for data-race-free code; races are C15's subject and outside); model directory and segment plugin; CRC-32 and roaring codec replaced by models; time.After fires immediately, elapsed times (statistics only) read as zero
func VF_C05_ReaderAfterBatch(unsafe int, order int) {
	vfSchedOrder(order)
	dir := vfNewDir()
	dir.seams = true
	w, err := OpenWriter(vfLiveConfig(dir, unsafe == 1))
	vfAssert(err == nil && w != nil, "OpenWriter succeeds on an empty directory")
	p1, p2 := vfByte("payload"), vfByte("payload")
	vfAssert(w.Batch(vfStepBatch(vfStep{op: 0, id: 1, payload: p1})) == nil, "first Batch succeeds")
	r1, err := w.Reader()
	vfAssert(err == nil && r1 != nil, "a reader can be obtained")
	got := vfSortedContent(r1)
	vfAssert(len(got) == 1 && got[0] == vfSeen{1, p1}, "a Reader obtained after Batch returned reflects that batch")
	vfAssert(w.Batch(vfStepBatch(vfStep{op: 0, id: 1, payload: p2})) == nil, "second Batch succeeds")
	r2, err := w.Reader()
	vfAssert(err == nil && r2 != nil, "a reader can be obtained")
	got = vfSortedContent(r2)
	vfAssert(len(got) == 1 && got[0] == vfSeen{1, p2}, "a Reader obtained after the overwrite reflects it (one live document, new payload)")
	got = vfSortedContent(r1)
	vfAssert(len(got) == 1 && got[0] == vfSeen{1, p1}, "the older Reader still shows the index as of its creation")
	_ = r1.Close()
	_ = r2.Close()
	vfAssert(w.Close() == nil, "Close succeeds")
}

// Two callers update the same id concurrently. Each caller's reader (taken
// after its own Batch returned) shows exactly one live document for the id,
// its own or the other caller's; the final index shows exactly one; and the
// order these observations imply is a single total order: a caller that saw
// the other's document after its own acknowledgement was overwritten, so the
// final document is the other's.
//
// vf:harness property=C05 cases=unsafe:0..1;order:0..1 cases.thorough=unsafe:0..1;order:0..1 sched=1 schedbudget=1 schedbudget.thorough=2 preempt=1 preempt.thorough=1 schedtotal=1 schedtotal.thorough=2 goinline=1 chanslack=8 deadlock=violation clock=zero maxpaths=400000 replay=model-only diff=off
// vf:replace hash/crc32.Update vfChecksumUpdate
// vf:replace io.CopyN vfCopyN
// vf:replace (*github.com/RoaringBitmap/roaring.Bitmap).ReadFrom vfRoaringReadFrom
// vf:replace (*github.com/RoaringBitmap/roaring.Bitmap).ToBytes vfRoaringToBytes
// vf:bounds default schedule: lowest goroutine id first or longest-waiting first (FIFO), thorough also highest id first; two caller goroutines, one update of the same id each with arbitrary distinct payloads, then a reader each; safe and unsafe mode; schedule bounds as VF_C05_ReaderAfterBatch
// vf:assume as VF_C05_ReaderAfterBatch
func VF_C05_ConflictingWriters(unsafe int, order int) {
	vfSchedOrder(order)
	dir := vfNewDir()
	dir.seams = true
	w, err := OpenWriter(vfLiveConfig(dir, unsafe == 1))
	vfAssert(err == nil && w != nil, "OpenWriter succeeds on an empty directory")
	pay := [2]byte{vfByte("payload"), vfByte("payload")}
	vfAssume(pay[0] != pay[1])
	var sawOther [2]bool
	var wg sync.WaitGroup
	for i := 0; i < 2; i++ {
		i := i
		wg.Add(1)
		go func() {
			vfAssert(w.Batch(vfStepBatch(vfStep{op: 0, id: 1, payload: pay[i]})) == nil, "Batch succeeds")
			r, err := w.Reader()
			vfAssert(err == nil && r != nil, "a reader can be obtained")
			got := vfSortedContent(r)
			vfAssert(len(got) == 1 && got[0].id == 1, "after the caller's Batch returned the id has exactly one live document")
			if len(got) == 1 {
				vfAssert(got[0].payload == pay[i] || got[0].payload == pay[1-i], "that document is the caller's or the other caller's")
				sawOther[i] = got[0].payload == pay[1-i]
			}
			_ = r.Close()
			wg.Done()
		}()
	}
	wg.Wait()
	r, err := w.Reader()
	vfAssert(err == nil && r != nil, "a reader can be obtained")
	got := vfSortedContent(r)
	vfAssert(len(got) == 1 && got[0].id == 1, "two updates of one id leave exactly one live document")
	vfAssert(!(sawOther[0] && sawOther[1]), "the two callers cannot both have been overwritten by the other")
	if len(got) == 1 {
		for i := 0; i < 2; i++ {
			if sawOther[i] {
				vfAssert(got[0].payload == pay[1-i], "the final document agrees with the order the callers observed")
			}
		}
	}
	_ = r.Close()
	vfAssert(w.Close() == nil, "Close succeeds")
}
