//go:build verif

package index

import "sync"

// C11 on the real writer: Close at an arbitrary moment of the background work.
// The caller issues three batches in unsafe mode (so persists and merges are
// still in progress), keeps a Reader, and closes the writer. Close returns (no
// hang), the held Reader still answers and everything backing it is still open;
// after the Reader is closed every item that was loaded from the directory has
// been released exactly once; the directory reopens to a prefix of the history
// containing every batch whose persisted-callback reported success.
//
// vf:harness property=C11 cases=order:0..1;pace:0,13 cases.thorough=order:0..1;pace:0,13,26 sched=1 schedbudget=1 schedbudget.thorough=2 preempt=1 schedtotal=1 schedtotal.thorough=2 goinline=1 chanslack=8 deadlock=violation clock=zero maxpaths=400000 replay=model-only diff=off
// vf:replace hash/crc32.Update vfChecksumUpdate
// vf:replace io.CopyN vfCopyN
// vf:replace (*github.com/RoaringBitmap/roaring.Bitmap).ReadFrom vfRoaringReadFrom
// vf:replace (*github.com/RoaringBitmap/roaring.Bitmap).ToBytes vfRoaringToBytes
// vf:bounds three single-update batches in unsafe mode (ids 1..3, arbitrary payloads), one held Reader, Close after the callers returned; caller pacing between its operations from a base-3 code (at once / one scheduling point / after the background work settled); at most schedtotal departures from the default schedule (another runnable goroutine at a blocking point, or a switch before a synchronisation operation), around two (thorough three) default schedules — lowest goroutine id first, longest-waiting first (FIFO), highest id first — which places Close at different points of the persister's and merger's work
// vf:assume as VF_C02_AckedBatchIsDurable
func VF_C11_LiveCloseAnytime(order int, pace int) {
	vfSchedOrder(order)
	vfLiveCloseAnytime(0, pace)
}

// C02 acknowledgement clause with a safe Batch in flight while the writer is
// closed from another goroutine: the Batch may fail, but if it returns nil (or
// its persisted-callback reports success) the batch is in the reopened
// directory. Using a writer while it is being closed is not covered by any of
// the given properties beyond that: on the pinned tree such a Batch can also
// block forever or panic (DESIGN.md observation O7), so hangs end a path
// without a verdict and a panic of the in-flight caller is recovered.
//
// vf:harness property=C02 cases=order:0..1;pace:0..2 cases.thorough=order:0..2;pace:0..2 sched=1 schedbudget=1 schedbudget.thorough=2 preempt=1 schedtotal=1 schedtotal.thorough=2 goinline=1 chanslack=8 deadlock=ignore clock=zero maxpaths=400000 replay=model-only diff=off
// vf:replace hash/crc32.Update vfChecksumUpdate
// vf:replace io.CopyN vfCopyN
// vf:replace (*github.com/RoaringBitmap/roaring.Bitmap).ReadFrom vfRoaringReadFrom
// vf:replace (*github.com/RoaringBitmap/roaring.Bitmap).ToBytes vfRoaringToBytes
// vf:bounds one acknowledged batch, then a safe Batch in flight from a second goroutine while the first closes the writer at once, after one scheduling point, or after the background settled (pace); schedule bounds as VF_C11_LiveCloseAnytime
// vf:assume as VF_C02_AckedBatchIsDurable; schedules in which the in-flight Batch never returns, and a panic inside it, are outside the claim (observation O7)
func VF_C02_AckWhileClosing(order int, pace int) {
	vfSchedOrder(order)
	vfLiveCloseAnytime(1, pace)
}

func vfLiveCloseAnytime(inflight int, pace int) {
	wd := &vfWorld{dir: vfNewDir(), states: [][]vfSeen{nil}}
	wd.install()
	w, err := OpenWriter(vfLiveConfig(wd.dir, inflight == 0))
	vfAssert(err == nil && w != nil, "OpenWriter succeeds on an empty directory")
	issue := func(st vfStep) error {
		wd.states = append(wd.states, wd.next(st))
		wd.issued++
		b := vfStepBatch(st)
		k := wd.issued
		b.SetPersistedCallback(func(err error) {
			if err == nil {
				if wd.acked < k {
					wd.acked = k
				}
				wd.crashAt(wd.cloneDir("", 0), "crash right after the persisted-callback")
			}
		})
		return w.Batch(b)
	}
	var wg sync.WaitGroup
	if inflight == 0 {
		for id := byte(1); id <= 3; id++ {
			vfAssert(issue(vfStep{op: 0, id: id, payload: vfByte("payload")}) == nil, "an unsafe Batch succeeds")
			vfPace(pace % 3) // the caller's pacing before its next operation
			pace /= 3
		}
	} else {
		vfAssert(issue(vfStep{op: 0, id: 1, payload: vfByte("payload")}) == nil, "first Batch succeeds")
		wg.Add(1)
		st := vfStep{op: 0, id: 2, payload: vfByte("payload")}
		go func() {
			// a safe Batch racing with Close: it may fail (index closed), but if it
			// returns nil the batch must be durable
			defer wg.Done()
			defer func() { _ = recover() }()
			k := wd.issued + 1
			if issue(st) == nil {
				if wd.acked < k {
					wd.acked = k
				}
			}
		}()
	}
	if inflight != 0 {
		vfPace(pace) // how far the in-flight Batch and the background get before Close
	}
	r, rerr := w.Reader()
	vfAssert(rerr == nil && r != nil, "a reader can be obtained")
	var before []vfSeen
	vfAtomic(func() { before = vfSortedContent(r) })
	vfAssert(w.Close() == nil, "Close succeeds")
	wg.Wait()
	vfReaderBacked(r, "after the writer was closed")
	vfAssert(vfSameContent(before, vfSortedContent(r)), "a Reader held across Close keeps answering the same")
	_ = r.Close()
	for _, c := range wd.dir.closers {
		vfAssert(c.closed == 1, "every item loaded from the directory is released exactly once after the writer and all readers are closed")
	}
	wd.crashAt(wd.cloneDir("", 0), "reopen after Close")
}

// C04 clause of the Close-anytime run: a Reader held across Writer.Close keeps
// answering and nothing backing it is released before it is closed (registered
// under C04 so that C04's own check reports it).
//
// vf:harness property=C04 cases=order:1;pace:0,13 cases.thorough=order:1;pace:0,13 sched=1 schedbudget=1 schedbudget.thorough=2 preempt=1 schedtotal=1 schedtotal.thorough=2 goinline=1 chanslack=8 deadlock=violation clock=zero maxpaths=400000 replay=model-only diff=off
// vf:replace hash/crc32.Update vfChecksumUpdate
// vf:replace io.CopyN vfCopyN
// vf:replace (*github.com/RoaringBitmap/roaring.Bitmap).ReadFrom vfRoaringReadFrom
// vf:replace (*github.com/RoaringBitmap/roaring.Bitmap).ToBytes vfRoaringToBytes
// vf:bounds as VF_C11_LiveCloseAnytime (quick: FIFO default schedule only)
// vf:assume as VF_C11_LiveCloseAnytime
func VF_C04_ReaderHeldAcrossClose(order int, pace int) {
	vfSchedOrder(order)
	vfLiveCloseAnytime(0, pace)
}
