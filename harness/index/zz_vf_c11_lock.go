//go:build verif

package index

import (
	"errors"
	"os"
	"path/filepath"

	"github.com/blugelabs/bluge/index/lock"
)

// ---- flock model -------------------------------------------------------------------
// Names map to inodes; an exclusive open fails while another open file
// description holds the inode's lock (LOCK_EX|LOCK_NB); removing a name unlinks
// it, the inode and its lock live on while a handle is open; closing a handle
// releases its lock.

type vfInode struct {
	data   []byte
	holder *vfLockHandle
}

type vfLockHandle struct {
	ino  *vfInode
	open bool
}

var vfLockFS struct {
	names   map[string]*vfInode
	handles map[*os.File]*vfLockHandle
	dirs    map[string]bool
}

func vfLockReset() {
	vfLockFS.names = map[string]*vfInode{}
	vfLockFS.handles = map[*os.File]*vfLockHandle{}
	vfLockFS.dirs = map[string]bool{}
}

type vfLockedFile struct{ f *os.File }

func (l *vfLockedFile) File() *os.File  { return l.f }
func (l *vfLockedFile) Exclusive() bool { return true }
func (l *vfLockedFile) Close() error    { return vfLockClose(l.f) }

var vfErrWouldBlock = errors.New("resource temporarily unavailable")

func vfLockOpenExclusive(path string, flag int, perm os.FileMode) (lock.LockedFile, error) {
	ino := vfLockFS.names[path]
	if ino == nil {
		if flag&os.O_CREATE == 0 {
			return nil, os.ErrNotExist
		}
		ino = &vfInode{}
		vfLockFS.names[path] = ino
	}
	if ino.holder != nil && ino.holder.open {
		return nil, vfErrWouldBlock
	}
	h := &vfLockHandle{ino: ino, open: true}
	ino.holder = h
	f := new(os.File)
	vfLockFS.handles[f] = h
	return &vfLockedFile{f}, nil
}

func vfLockHandleOf(f *os.File) *vfLockHandle {
	h := vfLockFS.handles[f]
	if h == nil {
		vfFail("operation on a file the lock model did not open")
	}
	return h
}

func vfLockClose(f *os.File) error {
	h := vfLockHandleOf(f)
	if !h.open {
		return os.ErrClosed
	}
	h.open = false
	if h.ino.holder == h {
		h.ino.holder = nil
	}
	return nil
}

func vfLockTruncate(f *os.File, size int64) error {
	h := vfLockHandleOf(f)
	if !h.open {
		return os.ErrClosed
	}
	h.ino.data = nil
	return nil
}

func vfLockWrite(f *os.File, p []byte) (int, error) {
	h := vfLockHandleOf(f)
	if !h.open {
		return 0, os.ErrClosed
	}
	h.ino.data = append(h.ino.data, p...)
	return len(p), nil
}

func vfLockSync(f *os.File) error {
	if !vfLockHandleOf(f).open {
		return os.ErrClosed
	}
	return nil
}

func vfLockRemoveAll(path string) error {
	delete(vfLockFS.names, path)
	return nil
}

func vfLockMkdirAll(path string, perm os.FileMode) error {
	vfLockFS.dirs[path] = true
	return nil
}

func vfLockStat(path string) (os.FileInfo, error) {
	if vfLockFS.dirs[path] {
		return nil, nil
	}
	return nil, os.ErrNotExist
}

func vfLockGetpid() int { return 4242 }

// vfLockHeld reports whether the directory's lock file is present and locked.
func vfLockHeld(dir string) bool {
	ino := vfLockFS.names[filepath.Join(dir, pidFilename)]
	return ino != nil && ino.holder != nil && ino.holder.open
}

// C11 lock clause: a second writer on a directory that is already locked is
// refused without harming the first (the first writer's lock file is still
// there and still locked, a third attempt is refused as well), and once the
// holder unlocks, the directory can be locked again at once. The second writer
// goes through the real OpenWriter (Setup, Lock, its error path), the holder and
// the third party through the real FileSystemDirectory.Lock/Unlock.
//
// vf:harness property=C11 cases=attempts:1..2
// vf:replace (*os.File).Close vfLockClose
// vf:replace (*os.File).Truncate vfLockTruncate
// vf:replace (*os.File).Write vfLockWrite
// vf:replace (*os.File).Sync vfLockSync
// vf:replace os.RemoveAll vfLockRemoveAll
// vf:replace os.MkdirAll vfLockMkdirAll
// vf:replace os.Stat vfLockStat
// vf:replace os.Getpid vfLockGetpid
// vf:bounds one lock holder, 1..2 refused OpenWriter attempts, one further Lock attempt, then Unlock and a fresh Lock; no faults
// vf:assume flock model (per-inode exclusive lock held by an open file description, LOCK_NB; unlink keeps the inode while open); the kernel's real flock/unlink behaviour and Windows are outside
func VF_C11_SecondWriterRefused(attempts int) {
	vfLockReset()
	const path = "/idx"
	mk := func() *FileSystemDirectory {
		d := NewFileSystemDirectory(path)
		d.openExclusive = vfLockOpenExclusive
		return d
	}
	a := mk()
	vfAssert(a.Setup(false) == nil, "set-up succeeds")
	vfAssert(a.Lock() == nil, "the first writer obtains the directory lock")
	vfAssert(vfLockHeld(path), "the lock file exists and is locked")
	for i := 0; i < attempts; i++ {
		cfg := vfRecoveryConfig(nil)
		cfg.DirectoryFunc = func() Directory { return mk() }
		cfg.DeletionPolicyFunc = func() DeletionPolicy { return NewKeepNLatestDeletionPolicy(1) }
		w, err := OpenWriter(cfg)
		vfAssert(err != nil && w == nil, "a second writer on a locked directory is refused")
		vfAssert(vfLockHeld(path), "the refused writer leaves the first writer's lock file in place and locked")
	}
	c := mk()
	vfAssert(c.Lock() != nil, "the directory is still exclusively locked after the refused attempts")
	vfAssert(vfLockHeld(path), "a refused Lock leaves the holder's lock alone")
	vfAssert(a.Unlock() == nil, "the holder unlocks")
	vfAssert(!vfLockHeld(path), "after Unlock the lock is released")
	d := mk()
	vfAssert(d.Lock() == nil, "a closed writer releases the directory lock so that it can be taken again at once")
	vfAssert(d.Unlock() == nil, "and released again")
}
