//go:build verif

package index

// Ground truth kept next to an arbitrary KeepNLatestDeletionPolicy state
// (DESIGN.md appendix C.5).
type vfPolicyWorld struct {
	p        *KeepNLatestDeletionPolicy
	dir      *vfDir
	n        int
	commits  []uint64            // committed epochs, oldest first (only those still tracked)
	segsOf   [][]uint64 // index epoch-1 -> segment ids named by that snapshot (epochs are 1,2,..)
	universe []uint64
	removeViolations int
}

func vfSubset(universe []uint64, name string) []uint64 {
	var out []uint64
	for _, id := range universe {
		if vfBool(name) {
			out = append(out, id)
		}
	}
	return out
}

// vfArbitraryPolicy builds a policy state satisfying the invariant DI: the
// last min(N, commits) epochs are live, earlier ones whose snapshot item is
// still on disk are deletable, every tracked epoch has its segment set, every
// such segment is a known file, and the directory holds all of those items.
func vfArbitraryPolicy(n, nLive, nDel int) *vfPolicyWorld {
	w := &vfPolicyWorld{p: NewKeepNLatestDeletionPolicy(n), dir: vfNewDir(), n: n, universe: []uint64{1, 2}}
	p := w.p
	epoch := uint64(0)
	for i := 0; i < nDel+nLive; i++ {
		epoch++
		segs := vfSubset(w.universe, "segment-in-snapshot")
		w.segsOf = append(w.segsOf, segs)
		w.commits = append(w.commits, epoch)
		set := map[uint64]struct{}{}
		for _, s := range segs {
			set[s] = struct{}{}
			p.knownSegmentFiles[s] = struct{}{}
			w.dir.put(ItemKindSegment, s, []byte{byte(s)})
		}
		p.liveSegments[epoch] = set
		if i < nDel {
			p.deletableEpochs = append(p.deletableEpochs, epoch)
		} else {
			p.liveEpochs = append(p.liveEpochs, epoch)
		}
		w.dir.put(ItemKindSnapshot, epoch, []byte{byte(epoch)})
	}
	// files of snapshots removed earlier whose own removal failed then
	for _, s := range vfSubset(w.universe, "stale-known-file") {
		p.knownSegmentFiles[s] = struct{}{}
		w.dir.put(ItemKindSegment, s, []byte{byte(s)})
	}
	w.dir.faults = true
	w.dir.onRemove = func(kind string, id uint64) {
		// safety at every single removal
		if kind == ItemKindSnapshot {
			for _, e := range p.liveEpochs {
				vfAssert(e != id, "a snapshot among the N newest is never removed")
			}
		} else {
			for i, segs := range w.segsOf {
				if !w.dir.has(ItemKindSnapshot, uint64(i+1)) {
					continue
				}
				for _, s := range segs {
					vfAssert(s != id, "no segment file is removed while a snapshot file still on disk refers to it")
				}
			}
		}
	}
	return w
}

func (w *vfPolicyWorld) checkInvariant(when string) {
	p := w.p
	// the N newest commits are live, in order
	want := w.commits
	if len(want) > w.n {
		want = want[len(want)-w.n:]
	}
	vfAssert(len(p.liveEpochs) == len(want), when+": exactly the N newest commits are retained")
	if len(p.liveEpochs) == len(want) {
		for i := range want {
			vfAssert(p.liveEpochs[i] == want[i], when+": retained epochs are the newest, in order")
		}
	}
	for _, e := range p.liveEpochs {
		vfAssert(w.dir.has(ItemKindSnapshot, e), when+": every retained snapshot is on disk")
		_, tracked := p.liveSegments[e]
		vfAssert(tracked, when+": every retained snapshot's segments are tracked")
	}
	for _, e := range p.deletableEpochs {
		vfAssert(w.dir.has(ItemKindSnapshot, e), when+": a snapshot still scheduled for removal is still on disk")
		_, tracked := p.liveSegments[e]
		vfAssert(tracked, when+": segments of a not-yet-removed snapshot stay protected")
	}
	// every snapshot on disk is loadable: all its segment files are present
	for i, segs := range w.segsOf {
		if !w.dir.has(ItemKindSnapshot, uint64(i+1)) {
			continue
		}
		for _, s := range segs {
			vfAssert(w.dir.has(ItemKindSegment, s), when+": every snapshot on disk has all its segment files")
			_, known := p.knownSegmentFiles[s]
			vfAssert(known, when+": files of snapshots on disk remain known to the policy")
		}
	}
}

// C11: one Commit from an arbitrary policy state.
//
// vf:harness property=C11 cases=n:1..3;nLive:0..3;nDel:0..1 cases.thorough=n:1..3;nLive:0..3;nDel:0..2 maporder=2 maxpaths=400000
// vf:bounds retention N in 1..3; nLive retained commits (<= N) and nDel earlier ones whose snapshot item is still on disk; each snapshot names an arbitrary subset of segment ids {1,2}; an arbitrary subset of stale known files; map iteration order explored for maps of up to 2 entries (the known-files map; larger maps iterate in insertion order)
func VF_C11_CommitStep(n int, nLive int, nDel int) {
	if nLive > n || (nDel > 0 && nLive != n) {
		vfAssert(true, "state excluded by the invariant")
		return
	}
	w := vfArbitraryPolicy(n, nLive, nDel)
	w.checkInvariant("pre-state")
	epoch := uint64(nLive + nDel + 1)
	segs := vfSubset(w.universe, "segment-in-new-snapshot")
	snap := &Snapshot{epoch: epoch}
	for _, s := range segs {
		snap.segment = append(snap.segment, &segmentSnapshot{id: s})
		w.dir.put(ItemKindSegment, s, []byte{byte(s)}) // persisted before the commit (C14 checks that order)
	}
	w.dir.put(ItemKindSnapshot, epoch, []byte{byte(epoch)})
	w.segsOf = append(w.segsOf, segs)
	w.commits = append(w.commits, epoch)
	w.p.Commit(snap)
	w.checkInvariant("after Commit")
}

// C11: one Cleanup from an arbitrary policy state, every Remove free to fail.
//
// vf:harness property=C11 cases=n:1..3;nLive:0..3;nDel:0..2 maporder=2 maxpaths=400000
// vf:bounds as CommitStep; every directory Remove may fail (symbolic choice per call); safety asserted at every individual Remove call, invariant afterwards
func VF_C11_CleanupStep(n int, nLive int, nDel int) {
	if nLive > n || (nDel > 0 && nLive != n) {
		vfAssert(true, "state excluded by the invariant")
		return
	}
	w := vfArbitraryPolicy(n, nLive, nDel)
	before := len(w.p.deletableEpochs)
	err := w.p.Cleanup(w.dir)
	vfAssert(err == nil, "Cleanup reports no error")
	w.checkInvariant("after Cleanup")
	// failed removals stay scheduled, successful ones are forgotten
	removedSnaps := 0
	for _, op := range w.dir.log {
		if op.op == "remove" && op.kind == ItemKindSnapshot && op.ok {
			removedSnaps++
		}
	}
	vfAssert(len(w.p.deletableEpochs) == before-removedSnaps, "snapshots whose removal failed stay scheduled for the next clean-up")
	// a second, fault-free clean-up finishes the job
	w.dir.faults = false
	_ = w.p.Cleanup(w.dir)
	w.checkInvariant("after a fault-free second Cleanup")
	vfAssert(len(w.p.deletableEpochs) == 0, "once the fault clears everything scheduled is removed")
	for _, id := range w.universe {
		if _, known := w.p.knownSegmentFiles[id]; !known {
			continue
		}
		needed := false
		for _, e := range w.p.liveEpochs {
			for _, s := range w.segsOf[e-1] {
				if s == id {
					needed = true
				}
			}
		}
		vfAssert(needed, "after a complete clean-up only files of retained snapshots are left")
	}
}
