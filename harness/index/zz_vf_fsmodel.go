//go:build verif

package index

import (
	"errors"
	"io"
	"os"

	"github.com/blugelabs/bluge/index/lock"
)

// ---- POSIX file model (DESIGN.md appendix C.7) ---------------------------------
// Per path: (exists, data, dirty since last successful sync). A handle has an
// offset. open(O_CREATE|O_RDWR) keeps existing content unless O_TRUNC; write
// writes at the offset (extending, never shrinking), may be short when faults
// are enabled; sync clears dirty; close/remove may fail when faults are enabled.

type vfFile struct {
	exists bool
	data   []byte
	dirty  bool
	syncs  int // successful syncs
}

type vfHandle struct {
	file   *vfFile
	path   string
	off    int
	open   bool
	appendMode bool
	wrote  bool
}

var vfFS struct {
	files     map[string]*vfFile
	handles   map[*os.File]*vfHandle
	faults    bool // environment faults enabled (open/write/sync/close/remove may fail)
	opened    int
	closed    int
	removeFailed bool
	log       []string
}

var vfErrFault = errors.New("vf: injected fault")

func vfFSReset(faults bool) {
	vfFS.files = map[string]*vfFile{}
	vfFS.handles = map[*os.File]*vfHandle{}
	vfFS.faults = faults
	vfFS.opened, vfFS.closed = 0, 0
	vfFS.removeFailed = false
	vfFS.log = nil
}

func vfFault(name string) bool {
	if !vfFS.faults {
		return false
	}
	return vfBool(name)
}

type vfLocked struct {
	f *os.File
}

func (l *vfLocked) File() *os.File  { return l.f }
func (l *vfLocked) Exclusive() bool { return true }
func (l *vfLocked) Close() error    { return vfFileClose(l.f) }

func vfOpen(path string, flag int, perm os.FileMode) (lock.LockedFile, error) {
	vfFS.log = append(vfFS.log, "open "+path)
	if vfFault("open-fails") {
		return nil, vfErrFault
	}
	f := vfFS.files[path]
	if f == nil {
		f = &vfFile{}
		vfFS.files[path] = f
	}
	if !f.exists {
		if flag&os.O_CREATE == 0 {
			return nil, os.ErrNotExist
		}
		f.exists = true
		f.data = nil
		f.dirty = true
	}
	if flag&os.O_TRUNC != 0 {
		f.data = nil
		f.dirty = true
	}
	h := &vfHandle{file: f, path: path, open: true, appendMode: flag&os.O_APPEND != 0}
	of := new(os.File)
	vfFS.handles[of] = h
	vfFS.opened++
	return &vfLocked{f: of}, nil
}

func vfHandleOf(f *os.File) *vfHandle {
	h := vfFS.handles[f]
	if h == nil {
		vfFail("operation on a file that the model did not open")
	}
	return h
}

// replacement for (*os.File).Write
func vfFileWrite(f *os.File, p []byte) (int, error) {
	h := vfHandleOf(f)
	if !h.open {
		return 0, os.ErrClosed
	}
	k := len(p)
	failed := false
	if len(p) > 0 && vfFault("write-short") {
		k = vfChoice("write-short-len", len(p))
		failed = true
	}
	if h.appendMode {
		h.off = len(h.file.data)
	}
	for i := 0; i < k; i++ {
		if h.off < len(h.file.data) {
			h.file.data[h.off] = p[i]
		} else {
			h.file.data = append(h.file.data, p[i])
		}
		h.off++
	}
	if k > 0 {
		h.file.dirty = true
	}
	h.wrote = true
	if failed {
		return k, vfErrFault
	}
	return k, nil
}

// replacement for (*os.File).Sync
func vfFileSync(f *os.File) error {
	h := vfHandleOf(f)
	if !h.open {
		return os.ErrClosed
	}
	if vfFault("sync-fails") {
		return vfErrFault
	}
	h.file.dirty = false
	h.file.syncs++
	return nil
}

// replacement for (*os.File).Truncate
func vfFileTruncate(f *os.File, size int64) error {
	h := vfHandleOf(f)
	if !h.open {
		return os.ErrClosed
	}
	if vfFault("truncate-fails") {
		return vfErrFault
	}
	n := int(size)
	if n < len(h.file.data) {
		h.file.data = h.file.data[:n]
	} else {
		for len(h.file.data) < n {
			h.file.data = append(h.file.data, 0)
		}
	}
	h.file.dirty = true
	return nil
}

// replacement for (*os.File).Close
func vfFileClose(f *os.File) error {
	h := vfHandleOf(f)
	if !h.open {
		return os.ErrClosed
	}
	h.open = false
	vfFS.closed++
	if vfFault("close-fails") {
		return vfErrFault
	}
	return nil
}

// replacement for os.Remove
func vfRemove(path string) error {
	vfFS.log = append(vfFS.log, "remove "+path)
	f := vfFS.files[path]
	if f == nil || !f.exists {
		return os.ErrNotExist
	}
	if vfFault("remove-fails") {
		vfFS.removeFailed = true
		return vfErrFault
	}
	f.exists = false
	f.data = nil
	return nil
}

// ---- model item writer ---------------------------------------------------------------

type vfItemWriter struct {
	chunks    [][]byte
	failAfter int // fail after this many chunks (-1: never)
	written   []byte
}

func (w *vfItemWriter) WriteTo(dst io.Writer, closeCh chan struct{}) (int64, error) {
	var n int64
	for i, c := range w.chunks {
		if i == w.failAfter {
			return n, vfErrFault
		}
		select {
		case <-closeCh:
			return n, errors.New("vf: cancelled")
		default:
		}
		k, err := dst.Write(c)
		n += int64(k)
		w.written = append(w.written, c[:k]...)
		if err != nil {
			return n, err
		}
	}
	if w.failAfter == len(w.chunks) {
		return n, vfErrFault
	}
	return n, nil
}
