//go:build verif

package index

import "sync"

// vfReaderBacked asserts that every file-backed segment a held reader lists is
// still open (its directory item's closer has not run).
func vfReaderBacked(r *Snapshot, what string) {
	vfAssert(r.refs >= 1, what+": the held reader is referenced")
	for _, ss := range r.segment {
		if rc, ok := ss.segment.refCounter.(*closeOnLastRefCounter); ok {
			vfAssert(rc.refs >= 1, what+": a segment of a held reader is still referenced")
			if c, mine := rc.closer.(*vfCloser); mine {
				vfAssert(c.closed == 0, what+": the item backing a held reader's segment has not been released (unmapped)")
			}
		}
	}
}

// C04 on the real writer (tier 2): a reader goroutine obtains a Reader while the
// caller overwrites the only document (so the file-backed segment the first
// root lists is dropped from the new root and released once nobody holds it).
// Whatever the interleaving, the Reader's content is the index after the first
// or after the second batch, the same on every read until it is closed, every
// item backing it stays open while it is held, and after everything is closed
// each item loaded from the directory was released exactly once.
//
// vf:harness property=C04 cases=unsafe:0;order:0..1 cases.thorough=unsafe:0..1;order:1 sched=1 schedbudget=1 preempt=1 schedtotal=1 schedtotal.thorough=2 goinline=1 chanslack=8 deadlock=violation clock=zero maxpaths=400000 replay=model-only diff=off
// vf:replace hash/crc32.Update vfChecksumUpdate
// vf:replace io.CopyN vfCopyN
// vf:replace (*github.com/RoaringBitmap/roaring.Bitmap).ReadFrom vfRoaringReadFrom
// vf:replace (*github.com/RoaringBitmap/roaring.Bitmap).ToBytes vfRoaringToBytes
// vf:bounds default schedule: lowest goroutine id first or longest-waiting first (FIFO), thorough also highest id first; one caller (update id 1, then overwrite id 1) and one reader goroutine (Reader, two reads, Close), arbitrary payloads, fresh model directory; at most schedtotal departures from the default schedule anywhere along the run, each another runnable goroutine at a blocking point or a switch before a synchronisation operation
// vf:assume sequentially consistent goroutines that switch at synchronisation operations and I/O seams (directory Persist/Remove, plugin Merge); model directory whose items are released by their closer (models munmap) and model segment plugin; CRC-32 and roaring codec replaced by models; time.After fires immediately, elapsed times (statistics only) read as zero
func VF_C04_LiveReaderUnderWriter(unsafe int, order int) {
	vfSchedOrder(order)
	dir := vfNewDir()
	dir.seams = true
	w, err := OpenWriter(vfLiveConfig(dir, unsafe == 1))
	vfAssert(err == nil && w != nil, "OpenWriter succeeds on an empty directory")
	p1, p2 := vfByte("payload"), vfByte("payload")
	vfAssume(p1 != p2)
	vfAssert(w.Batch(vfStepBatch(vfStep{op: 0, id: 1, payload: p1})) == nil, "first Batch succeeds")
	var wg sync.WaitGroup
	wg.Add(1)
	go func() {
		r, err := w.Reader()
		vfAssert(err == nil && r != nil, "a reader can be obtained")
		vfReaderBacked(r, "right after Reader()")
		got := vfSortedContent(r)
		vfAssert(len(got) == 1 && got[0].id == 1 && (got[0].payload == p1 || got[0].payload == p2), "the reader shows the index after the first or after the second batch")
		vfReaderBacked(r, "after the first read")
		again := vfSortedContent(r)
		vfAssert(vfSameContent(got, again), "a held reader answers the same on every read")
		vfReaderBacked(r, "before Close")
		_ = r.Close()
		wg.Done()
	}()
	vfAssert(w.Batch(vfStepBatch(vfStep{op: 0, id: 1, payload: p2})) == nil, "second Batch succeeds")
	wg.Wait()
	vfAssert(w.Close() == nil, "Close succeeds")
	for _, c := range dir.closers {
		vfAssert(c.closed == 1, "every item loaded from the directory is released exactly once after the writer and all readers are closed")
	}
}
