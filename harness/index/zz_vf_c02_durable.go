//go:build verif

package index

import "sync"

// ---- tier 2: the real writer with its three loops ------------------------------------
// OpenWriter, introducerLoop, persisterLoop, mergerLoop, Batch, prepareSegment,
// Close run as they are, as cooperative goroutines whose interleaving is a
// decision of the path. Storage is the recording model directory; after every
// directory operation (and for every item being written: with a prefix of it
// under its final name) the directory image is copied and reopened through the
// real OpenReader.

func vfLiveConfig(dir *vfDir, unsafeBatch bool) Config {
	cfg := defaultConfig()
	cfg.supportedSegmentPlugins = map[string]map[uint32]*SegmentPlugin{}
	cfg = cfg.WithSegmentPlugin(&SegmentPlugin{Type: "vf", Version: 1, New: vfNewFromDocs, Load: vfLoadSegment, Merge: vfMerge})
	cfg.SegmentType, cfg.SegmentVersion = "vf", 1
	cfg.DirectoryFunc = func() Directory { return dir }
	cfg.NumAnalysisWorkers = 1
	cfg.UnsafeBatch = unsafeBatch
	return cfg
}

// vfWorld tracks the abstract states S0..Sn of a sequential batch history and
// how many of the batches have been acknowledged.
type vfWorld struct {
	dir    *vfDir
	states [][]vfSeen // states[k] = abstract content after k batches, sorted by id
	issued int        // batches handed to the writer so far
	acked  int        // batches acknowledged so far
	checks int
	tornCk int
	// concurrent histories of updates to distinct ids: sets instead of a sequence
	setMode    bool
	issuedDocs []vfSeen
	ackedDocs  []vfSeen
}

func (wd *vfWorld) cloneDir(skipKind string, skipID uint64) *vfDir {
	c := vfNewDir()
	c.freeOnLoad = false
	for _, op := range wd.dir.listOrder {
		if it, ok := wd.dir.items[vfKey(op.kind, op.id)]; ok {
			if op.kind == skipKind && op.id == skipID {
				continue
			}
			c.put(op.kind, op.id, it.data)
		}
	}
	return c
}

func vfSortedContent(s *Snapshot) []vfSeen {
	got := vfContent(s)
	for i := 1; i < len(got); i++ {
		for j := i; j > 0 && got[j].id < got[j-1].id; j-- {
			got[j], got[j-1] = got[j-1], got[j]
		}
	}
	return got
}

func vfSameContent(a, b []vfSeen) bool {
	if len(a) != len(b) {
		return false
	}
	// branch-free: payloads are symbolic, the comparison is one term
	var eqs []bool
	for i := range a {
		eqs = append(eqs, a[i].id == b[i].id, a[i].payload == b[i].payload)
	}
	return vfAll(eqs...)
}

func vfHasDoc(list []vfSeen, d vfSeen) bool {
	var alts []bool
	for _, x := range list {
		alts = append(alts, vfAll(x.id == d.id, x.payload == d.payload))
	}
	return vfAny(alts...)
}

// crashAt reopens the image and demands the content of some state k with
// acked <= k <= issued.
func (wd *vfWorld) crashAt(img *vfDir, when string) {
	vfAtomic(func() {
		wd.checks++
		r, err := OpenReader(vfRecoveryConfig(img))
		var got []vfSeen
		if err != nil {
			// no usable snapshot: an index that never had anything acknowledged
			vfAssert(r == nil, "OpenReader returns no reader with its error")
			vfAssert(wd.acked == 0 && len(wd.ackedDocs) == 0 && len(wd.states[0]) == 0, when+": the directory reopens (after an acknowledgement there is always a loadable snapshot)")
			return
		}
		got = vfSortedContent(r)
		if wd.setMode {
			for _, a := range wd.ackedDocs {
				vfAssert(vfHasDoc(got, a), when+": reopening yields a state that contains every acknowledged batch")
			}
			for _, g := range got {
				vfAssert(vfHasDoc(wd.issuedDocs, g), when+": the reopened state holds only documents some batch wrote")
			}
			_ = r.Close()
			return
		}
		var oks []bool
		for k := wd.acked; k <= wd.issued && k < len(wd.states); k++ {
			oks = append(oks, vfSameContent(got, wd.states[k]))
		}
		ok := vfAny(oks...)
		vfAssert(ok, when+": reopening yields a state that contains every acknowledged batch (and is a prefix of the history)")
		_ = r.Close()
	})
}

func (wd *vfWorld) install() {
	wd.dir.seams = true
	wd.dir.afterOp = func(op, kind string, id uint64) {
		if op == "persist" && kind == ItemKindSegment {
			// a segment item no snapshot names yet: the image reopens exactly as the previous one did
			return
		}
		wd.crashAt(wd.cloneDir("", 0), "crash after "+op+" of a "+kind+" item")
	}
	wd.dir.onTorn = func(kind string, id uint64, data []byte) {
		// the item in flight exists under its final name with a prefix of its bytes
		if kind == ItemKindSegment {
			return // not named by any snapshot yet (see afterOp)
		}
		wd.tornCk++
		for _, n := range []int{0, len(data) - 1} {
			if n < 0 {
				continue
			}
			img := wd.cloneDir(kind, id)
			img.put(kind, id, data[:n])
			wd.crashAt(img, "crash while writing a "+kind+" item")
		}
	}
}

func vfInsertSorted(st []vfSeen, d vfSeen) []vfSeen {
	var out []vfSeen
	done := false
	for _, x := range st {
		if x.id == d.id {
			continue
		}
		if !done && d.id < x.id {
			out = append(out, d)
			done = true
		}
		out = append(out, x)
	}
	if !done {
		out = append(out, d)
	}
	return out
}

func vfRemoveID(st []vfSeen, id byte) []vfSeen {
	var out []vfSeen
	for _, x := range st {
		if x.id != id {
			out = append(out, x)
		}
	}
	return out
}

// one batch of the scripted history: op 0 = Update(id, payload), 1 = Delete(id),
// 2 = Update(id, payload) and Update(id+1, payload2) in one batch (one segment of two documents),
// 3 = Delete(id) and Update(id+1, payload) in one batch
type vfStep struct {
	op       int
	id       byte
	payload  byte
	payload2 byte
}

func (wd *vfWorld) next(st vfStep) []vfSeen {
	cur := wd.states[len(wd.states)-1]
	if st.op == 1 {
		return vfRemoveID(cur, st.id)
	}
	if st.op == 3 {
		return vfInsertSorted(vfRemoveID(cur, st.id), vfSeen{id: st.id + 1, payload: st.payload})
	}
	cur = vfInsertSorted(cur, vfSeen{id: st.id, payload: st.payload})
	if st.op == 2 {
		cur = vfInsertSorted(cur, vfSeen{id: st.id + 1, payload: st.payload2})
	}
	return cur
}

func vfStepBatch(st vfStep) *Batch {
	b := NewBatch()
	if st.op == 1 {
		b.Delete(vfIDTerm(st.id))
	} else if st.op == 3 {
		b.Delete(vfIDTerm(st.id))
		b.Update(vfIDTerm(st.id+1), &vfDocument{id: st.id + 1, payload: st.payload})
	} else {
		b.Update(vfIDTerm(st.id), &vfDocument{id: st.id, payload: st.payload})
		if st.op == 2 {
			b.Update(vfIDTerm(st.id+1), &vfDocument{id: st.id + 1, payload: st.payload2})
		}
	}
	return b
}

// scripted histories: concrete operations and ids (so that batches conflict),
// arbitrary payloads
func vfScript(sc int) []vfStep {
	p := func() byte { return vfByte("payload") }
	switch sc {
	case 0:
		return []vfStep{{op: 0, id: 1, payload: p()}}
	case 1:
		return []vfStep{{op: 0, id: 1, payload: p()}, {op: 0, id: 1, payload: p()}}
	case 2:
		return []vfStep{{op: 0, id: 1, payload: p()}, {op: 1, id: 1}}
	case 3:
		return []vfStep{{op: 0, id: 1, payload: p()}, {op: 0, id: 2, payload: p()}}
	case 4:
		return []vfStep{{op: 0, id: 1, payload: p()}, {op: 0, id: 2, payload: p()}, {op: 1, id: 1}}
	case 5:
		return []vfStep{{op: 0, id: 1, payload: p()}, {op: 1, id: 1}, {op: 0, id: 1, payload: p()}}
	case 6:
		// one segment of two documents, then its documents deleted one batch at a time
		return []vfStep{{op: 2, id: 1, payload: p(), payload2: p()}, {op: 1, id: 1}, {op: 1, id: 2}}
	case 7:
		return []vfStep{{op: 2, id: 1, payload: p(), payload2: p()}, {op: 1, id: 2}, {op: 0, id: 1, payload: p()}}
	case 9:
		// two segments in quick succession (in-memory merge by the persister), then an overwrite of the first
		return []vfStep{{op: 0, id: 1, payload: p()}, {op: 0, id: 2, payload: p()}, {op: 0, id: 1, payload: p()}}
	case 10:
		// a two-document segment loses its first document, then another segment follows it
		return []vfStep{{op: 2, id: 1, payload: p(), payload2: p()}, {op: 1, id: 1}, {op: 0, id: 3, payload: p()}}
	case 8:
		// two-document segment; delete one; then delete the other and add a third in one batch
		return []vfStep{{op: 2, id: 1, payload: p(), payload2: p()}, {op: 1, id: 1}, {op: 3, id: 2, payload: p()}}
	}
	return nil
}

// C02: safe mode. Every Batch that returns nil is durable at every later
// directory-operation boundary and torn state, up to and including Close.
//
// vf:harness property=C02 cases=sc:0..3;order:0..1 cases.thorough=sc:0..5;order:0..2 sched=1 schedbudget=2 preempt=0 preempt.thorough=1 schedtotal=2 goinline=1 chanslack=8 deadlock=violation clock=zero maxpaths=200000 replay=model-only diff=off
// vf:replace hash/crc32.Update vfChecksumUpdate
// vf:replace io.CopyN vfCopyN
// vf:replace (*github.com/RoaringBitmap/roaring.Bitmap).ReadFrom vfRoaringReadFrom
// vf:replace (*github.com/RoaringBitmap/roaring.Bitmap).ToBytes vfRoaringToBytes
// vf:bounds default schedule: lowest goroutine id first or longest-waiting first (FIFO), thorough also highest id first; scripted histories of 1..3 single-operation batches (update, overwrite, delete-to-empty, second id, re-insert) with arbitrary payload bytes on a fresh model directory; the real OpenWriter/Batch/introducerLoop/persisterLoop/mergerLoop/Close as cooperative goroutines; schedule choices: the first schedbudget blocking points with more than one runnable goroutine fork over all candidates (lowest goroutine id afterwards), plus preempt extra switches before synchronisation operations; crash image taken after every snapshot Persist and every Remove (a freshly written segment item is not yet named by any snapshot, so the image after it reopens like the one before) and, for each snapshot item in flight, with the empty and the all-but-one-byte prefix under its final name
// vf:assume sequentially consistent goroutines that switch at blocking operations and at the I/O seams (directory Persist/Remove, plugin Merge), plus the stated departures (the Go memory model is not modelled); model directory whose Persist is atomic-or-prefix as directory_fs.go writes items under their final name; model segment plugin; CRC-32 replaced by a rolling checksum, roaring's unsafe-based (de)serialisation by the model codec; time.After fires immediately, elapsed times (statistics only) read as zero; which torn prefixes are distinguishable is C03's subject (any prefix is rejected there)
func VF_C02_AckedBatchIsDurable(sc int, order int) {
	vfSchedOrder(order)
	script := vfScript(sc)
	wd := &vfWorld{dir: vfNewDir(), states: [][]vfSeen{nil}}
	wd.install()
	w, err := OpenWriter(vfLiveConfig(wd.dir, false))
	vfAssert(err == nil && w != nil, "OpenWriter succeeds on an empty directory")
	for _, st := range script {
		wd.states = append(wd.states, wd.next(st))
		wd.issued++
		b := vfStepBatch(st)
		k := wd.issued
		b.SetPersistedCallback(func(err error) {
			vfAssert(err == nil, "persisted-callback reports success without faults")
			if wd.acked < k {
				wd.acked = k
			}
			wd.crashAt(wd.cloneDir("", 0), "crash right after the persisted-callback")
		})
		err := w.Batch(b)
		vfAssert(err == nil, "Batch succeeds without faults")
		wd.acked = wd.issued
		wd.crashAt(wd.cloneDir("", 0), "crash right after Batch returned")
	}
	vfAssert(wd.checks > len(script), "directory operations were observed")
	err = w.Close()
	vfAssert(err == nil, "Close succeeds")
	wd.crashAt(wd.cloneDir("", 0), "reopen after Close")
}

// C02 with batches in flight concurrently: nw goroutines each issue one safe
// Batch updating its own id. Whatever the interleaving of the callers, the
// analysis worker and the three loops, a batch whose call has returned nil is in
// every later crash image.
//
// vf:harness property=C02 cases=nw:2;order:0..1 cases.thorough=nw:2;order:0..2 sched=1 schedbudget=2 preempt=0 preempt.thorough=1 schedtotal=2 goinline=1 chanslack=8 deadlock=violation clock=zero maxpaths=400000 replay=model-only diff=off
// vf:replace hash/crc32.Update vfChecksumUpdate
// vf:replace io.CopyN vfCopyN
// vf:replace (*github.com/RoaringBitmap/roaring.Bitmap).ReadFrom vfRoaringReadFrom
// vf:replace (*github.com/RoaringBitmap/roaring.Bitmap).ToBytes vfRoaringToBytes
// vf:bounds default schedule: lowest goroutine id first or longest-waiting first (FIFO), thorough also highest id first; two caller goroutines, one single-document update each (distinct ids, arbitrary payloads), fresh model directory; schedule choices and crash images as in VF_C02_AckedBatchIsDurable
// vf:assume as VF_C02_AckedBatchIsDurable
func VF_C02_ConcurrentBatchesDurable(nw int, order int) {
	vfSchedOrder(order)
	wd := &vfWorld{dir: vfNewDir(), states: [][]vfSeen{nil}, setMode: true}
	wd.install()
	w, err := OpenWriter(vfLiveConfig(wd.dir, false))
	vfAssert(err == nil && w != nil, "OpenWriter succeeds on an empty directory")
	var wg sync.WaitGroup
	for i := 0; i < nw; i++ {
		doc := vfSeen{id: byte(i + 1), payload: vfByte("payload")}
		wd.issuedDocs = append(wd.issuedDocs, doc)
		wg.Add(1)
		go func() {
			b := vfStepBatch(vfStep{op: 0, id: doc.id, payload: doc.payload})
			called := false
			b.SetPersistedCallback(func(err error) {
				vfAssert(err == nil, "persisted-callback reports success without faults")
				vfAssert(!called, "the persisted-callback runs once")
				called = true
				wd.ackedDocs = append(wd.ackedDocs, doc)
				wd.crashAt(wd.cloneDir("", 0), "crash right after the persisted-callback")
			})
			err := w.Batch(b)
			vfAssert(err == nil, "Batch succeeds without faults")
			if !called {
				wd.ackedDocs = append(wd.ackedDocs, doc)
			}
			wd.crashAt(wd.cloneDir("", 0), "crash right after Batch returned")
			wg.Done()
		}()
	}
	wg.Wait()
	vfAssert(len(wd.ackedDocs) == nw, "every caller returned")
	err = w.Close()
	vfAssert(err == nil, "Close succeeds")
	wd.crashAt(wd.cloneDir("", 0), "reopen after Close")
}

// C03 on the real writer (tier 2), unsafe batch mode: Batch returns once the
// batch is applied, the persister works concurrently with the following
// batches. Every crash image — after every directory operation and with a torn
// item in flight — reopens without fault to a state of the history (a prefix),
// never a mixture, and to one that contains every batch whose
// persisted-callback has reported success.
//
// vf:harness property=C03 cases=sc:8..10;order:0..1;pace:0,21 cases.thorough=sc:4..10;order:0..2;pace:0,4,13,21,26 sched=1 schedbudget=1 preempt=0 preempt.thorough=1 schedtotal=1 goinline=1 chanslack=8 deadlock=violation clock=zero maxpaths=400000 replay=model-only diff=off
// vf:replace hash/crc32.Update vfChecksumUpdate
// vf:replace io.CopyN vfCopyN
// vf:replace (*github.com/RoaringBitmap/roaring.Bitmap).ReadFrom vfRoaringReadFrom
// vf:replace (*github.com/RoaringBitmap/roaring.Bitmap).ToBytes vfRoaringToBytes
// vf:bounds default schedule: lowest goroutine id first or longest-waiting first (FIFO), thorough also highest id first; scripted histories of three batches (two ids; a two-document segment whose documents are deleted one batch at a time; delete then re-insert) with arbitrary payloads, unsafe batch mode, fresh model directory; caller pacing between its operations from a base-3 code (at once / one scheduling point / after the background work settled); schedule and crash-image bounds as VF_C02_AckedBatchIsDurable
// vf:assume as VF_C02_AckedBatchIsDurable
func VF_C03_LiveCrashImagesArePrefixes(sc int, order int, pace int) {
	vfSchedOrder(order)
	script := vfScript(sc)
	wd := &vfWorld{dir: vfNewDir(), states: [][]vfSeen{nil}}
	wd.install()
	w, err := OpenWriter(vfLiveConfig(wd.dir, true))
	vfAssert(err == nil && w != nil, "OpenWriter succeeds on an empty directory")
	for _, st := range script {
		wd.states = append(wd.states, wd.next(st))
		wd.issued++
		b := vfStepBatch(st)
		k := wd.issued
		b.SetPersistedCallback(func(err error) {
			vfAssert(err == nil, "persisted-callback reports success without faults")
			if wd.acked < k {
				wd.acked = k
			}
			wd.crashAt(wd.cloneDir("", 0), "crash right after the persisted-callback")
		})
		vfAssert(w.Batch(b) == nil, "Batch succeeds without faults")
		r, rerr := w.Reader()
		vfAssert(rerr == nil && r != nil, "a reader can be obtained")
		vfAtomic(func() {
			// the observation itself is one step: enumerating the reader must not pace the caller
			vfAssert(vfSameContent(vfSortedContent(r), wd.states[wd.issued]), "a reader obtained after Batch returned reflects the batch")
		})
		_ = r.Close()
		// the caller's pacing before its next operation: at once, one scheduling point, or after the background settled
		vfPace(pace % 3)
		pace /= 3
	}
	vfAssert(w.Close() == nil, "Close succeeds")
	wd.crashAt(wd.cloneDir("", 0), "reopen after Close")
}

// C08 clause "built, persisted and reopened gives the same documents": the
// reopened directory (through the real OpenReader and loadSnapshot) equals the
// live index for layouts that have a segment with a pending deletion in front
// of another segment. Same run as the C03 harness above, registered under C08 so
// that C08's own check reports a reopen that disagrees with the live index.
//
// vf:harness property=C08 cases=sc:10;order:0..1;pace:21 cases.thorough=sc:6..10;order:0..1;pace:21,26 sched=1 schedbudget=1 preempt=0 schedtotal=1 goinline=1 chanslack=8 deadlock=violation clock=zero maxpaths=400000 replay=model-only diff=off
// vf:replace hash/crc32.Update vfChecksumUpdate
// vf:replace io.CopyN vfCopyN
// vf:replace (*github.com/RoaringBitmap/roaring.Bitmap).ReadFrom vfRoaringReadFrom
// vf:replace (*github.com/RoaringBitmap/roaring.Bitmap).ToBytes vfRoaringToBytes
// vf:bounds as VF_C03_LiveCrashImagesArePrefixes, restricted to the histories with multi-document segments and pending deletions
// vf:assume as VF_C02_AckedBatchIsDurable; model segments stand for ice (segment file formats are outside)
func VF_C08_ReopenedEqualsLive(sc int, order int, pace int) {
	VF_C03_LiveCrashImagesArePrefixes(sc, order, pace)
}
