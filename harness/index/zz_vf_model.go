//go:build verif

package index

import (
	"bytes"
	"encoding/binary"
	"errors"
	"fmt"
	"io"

	"github.com/RoaringBitmap/roaring"
	segment "github.com/blugelabs/bluge_segment_api"
)

// ---- model directory --------------------------------------------------------------
// A recording in-memory Directory: items are byte strings, every operation is
// logged, Load hands out a private copy whose closer releases it (vfFree models
// munmap: any later read of those bytes is a fault), and — when faults are on —
// each Persist/Load/Remove may fail by symbolic choice.

type vfOp struct {
	op   string // persist | load | remove | list
	kind string
	id   uint64
	ok   bool
}

type vfItem struct {
	data []byte
}

type vfDir struct {
	items      map[string]*vfItem
	log        []vfOp
	faults     bool
	// with faultBudgeted at most faultsLeft more operations fail (transient faults)
	faultBudgeted bool
	faultsLeft    int
	faultsHit     int
	seams         bool // Persist and Remove are scheduling points (tier 2)
	loads      int
	closes     int
	freeOnLoad bool // Load returns a copy freed by its closer
	onRemove   func(kind string, id uint64)
	onPersist  func(kind string, id uint64)
	onTorn     func(kind string, id uint64, data []byte)
	afterOp    func(op, kind string, id uint64)
	listOrder  []vfOp
	closers    []*vfCloser
}

func vfNewDir() *vfDir {
	return &vfDir{items: map[string]*vfItem{}, freeOnLoad: true}
}

func vfKey(kind string, id uint64) string { return fmt.Sprintf("%s/%d", kind, id) }

func (d *vfDir) fault(name string) bool {
	if !d.faults {
		return false
	}
	if d.faultBudgeted {
		if d.faultsLeft == 0 {
			return false
		}
		if vfBool(name) {
			d.faultsLeft--
			d.faultsHit++
			return true
		}
		return false
	}
	return vfBool(name)
}

func (d *vfDir) Setup(readOnly bool) error { return nil }

func (d *vfDir) has(kind string, id uint64) bool {
	_, ok := d.items[vfKey(kind, id)]
	return ok
}

func (d *vfDir) List(kind string) ([]uint64, error) {
	d.log = append(d.log, vfOp{"list", kind, 0, true})
	if d.fault("list-fails") {
		return nil, vfErrFault
	}
	var ids []uint64
	for _, op := range d.listOrder {
		if op.kind == kind && d.has(kind, op.id) {
			ids = append(ids, op.id)
		}
	}
	// descending by id (the Directory contract)
	for i := 1; i < len(ids); i++ {
		for j := i; j > 0 && ids[j] > ids[j-1]; j-- {
			ids[j], ids[j-1] = ids[j-1], ids[j]
		}
	}
	return ids, nil
}

type vfCloser struct {
	d      *vfDir
	buf    []byte
	closed int
	fail   bool
}

func (c *vfCloser) Close() error {
	c.closed++
	c.d.closes++
	if c.closed > 1 {
		vfFail("item closer called twice")
	}
	if c.buf != nil {
		vfFree(c.buf)
	}
	if c.fail {
		return vfErrFault
	}
	return nil
}

func (d *vfDir) Load(kind string, id uint64) (*segment.Data, io.Closer, error) {
	it, ok := d.items[vfKey(kind, id)]
	if !ok {
		d.log = append(d.log, vfOp{"load", kind, id, false})
		return nil, nil, errors.New("vf: no such item")
	}
	if d.fault("load-fails") {
		d.log = append(d.log, vfOp{"load", kind, id, false})
		return nil, nil, vfErrFault
	}
	d.log = append(d.log, vfOp{"load", kind, id, true})
	d.loads++
	buf := it.data
	c := &vfCloser{d: d}
	if d.freeOnLoad {
		buf = append([]byte(nil), it.data...)
		c.buf = buf
	}
	d.closers = append(d.closers, c)
	return segment.NewDataBytes(buf), c, nil
}

// vfSeam marks a point where real code does I/O or long computation: under the
// tier-2 scheduler the goroutine yields there (another runnable goroutine may
// run before it continues), as a real goroutine would be descheduled.
func vfSeam() {
	if vfScheduled() {
		vfYield()
	}
}

func (d *vfDir) Persist(kind string, id uint64, w WriterTo, closeCh chan struct{}) error {
	if d.seams {
		vfSeam()
	}
	if d.onPersist != nil {
		d.onPersist(kind, id)
	}
	if d.fault("persist-fails") {
		d.log = append(d.log, vfOp{"persist", kind, id, false})
		return vfErrFault
	}
	var buf bytes.Buffer
	_, err := w.WriteTo(&buf, closeCh)
	if err != nil {
		d.log = append(d.log, vfOp{"persist", kind, id, false})
		return err
	}
	if d.onTorn != nil {
		// the item is being written under its final name: a crash now leaves a prefix of it
		d.onTorn(kind, id, buf.Bytes())
	}
	d.put(kind, id, buf.Bytes())
	d.log = append(d.log, vfOp{"persist", kind, id, true})
	if d.afterOp != nil {
		d.afterOp("persist", kind, id)
	}
	return nil
}

func (d *vfDir) put(kind string, id uint64, data []byte) {
	k := vfKey(kind, id)
	if _, ok := d.items[k]; !ok {
		d.listOrder = append(d.listOrder, vfOp{kind: kind, id: id})
	}
	d.items[k] = &vfItem{data: data}
}

func (d *vfDir) Remove(kind string, id uint64) error {
	if d.seams {
		vfSeam()
	}
	if d.onRemove != nil {
		d.onRemove(kind, id)
	}
	if d.fault("remove-fails") {
		d.log = append(d.log, vfOp{"remove", kind, id, false})
		return vfErrFault
	}
	delete(d.items, vfKey(kind, id))
	d.log = append(d.log, vfOp{"remove", kind, id, true})
	if d.afterOp != nil {
		d.afterOp("remove", kind, id)
	}
	return nil
}

func (d *vfDir) Stats() (uint64, uint64) { return uint64(len(d.items)), 0 }
func (d *vfDir) Sync() error             { return nil }
func (d *vfDir) Lock() error             { return nil }
func (d *vfDir) Unlock() error           { return nil }

// ---- model segment (DESIGN.md appendix C.1) ----------------------------------------

type vfDoc struct {
	id      []byte // the _id term (symbolic bytes)
	payload byte
}

type vfSegment struct {
	uid  uint64
	docs []vfDoc
}

var vfSegRegistry map[uint64]*vfSegment
var vfNextUID uint64

func vfNewSegment(docs []vfDoc) *vfSegment {
	if vfSegRegistry == nil {
		vfSegRegistry = map[uint64]*vfSegment{}
	}
	vfNextUID++
	s := &vfSegment{uid: vfNextUID, docs: docs}
	vfSegRegistry[s.uid] = s
	return s
}

func (s *vfSegment) Count() uint64 { return uint64(len(s.docs)) }

func (s *vfSegment) DocsMatchingTerms(terms []segment.Term) (*roaring.Bitmap, error) {
	rv := roaring.NewBitmap()
	for i, d := range s.docs {
		for _, t := range terms {
			if t.Field() == "_id" && bytes.Equal(t.Term(), d.id) {
				rv.Add(uint32(i))
				break
			}
		}
	}
	return rv, nil
}

func (s *vfSegment) VisitStoredFields(num uint64, visitor segment.StoredFieldVisitor) error {
	if num >= uint64(len(s.docs)) {
		return nil
	}
	d := s.docs[num]
	if !visitor("_id", d.id) {
		return nil
	}
	visitor("p", []byte{d.payload})
	return nil
}

func (s *vfSegment) Fields() []string { return []string{"_id", "p"} }

type vfCollStats struct{ total, docs, sum uint64 }

func (c *vfCollStats) TotalDocumentCount() uint64           { return c.total }
func (c *vfCollStats) DocumentCount() uint64                { return c.docs }
func (c *vfCollStats) SumTotalTermFrequency() uint64        { return c.sum }
func (c *vfCollStats) Merge(o segment.CollectionStats) {
	c.total += o.TotalDocumentCount()
	c.docs += o.DocumentCount()
	c.sum += o.SumTotalTermFrequency()
}

func (s *vfSegment) CollectionStats(field string) (segment.CollectionStats, error) {
	n := uint64(len(s.docs))
	return &vfCollStats{n, n, n}, nil
}

func (s *vfSegment) Size() int { return 16 * len(s.docs) }

type vfDVReader struct{ s *vfSegment }

func (r *vfDVReader) VisitDocumentValues(number uint64, visitor segment.DocumentValueVisitor) error {
	if number < uint64(len(r.s.docs)) {
		visitor("_id", r.s.docs[number].id)
	}
	return nil
}

func (s *vfSegment) DocumentValueReader(fields []string) (segment.DocumentValueReader, error) {
	return &vfDVReader{s}, nil
}

func (s *vfSegment) WriteTo(w io.Writer, closeCh chan struct{}) (int64, error) {
	var b [8]byte
	binary.BigEndian.PutUint64(b[:], s.uid)
	n, err := w.Write(b[:])
	return int64(n), err
}

func (s *vfSegment) Type() string    { return "vf" }
func (s *vfSegment) Version() uint32 { return 1 }

// dictionary / postings over the model segment

type vfDict struct {
	s     *vfSegment
	field string
}

func (s *vfSegment) Dictionary(field string) (segment.Dictionary, error) {
	return &vfDict{s, field}, nil
}

func (d *vfDict) matches(doc *vfDoc, term []byte) bool {
	switch d.field {
	case "_id":
		return bytes.Equal(doc.id, term)
	case "p":
		return len(term) == 1 && term[0] == doc.payload
	case "bit": // term k matches documents whose payload has bit k set
		return len(term) == 1 && term[0] < 8 && doc.payload&(1<<term[0]) != 0
	}
	return false
}

func (d *vfDict) Contains(key []byte) (bool, error) {
	for i := range d.s.docs {
		if d.matches(&d.s.docs[i], key) {
			return true, nil
		}
	}
	return false, nil
}

func (d *vfDict) Close() error { return nil }

func (d *vfDict) Iterator(a segment.Automaton, start, end []byte) segment.DictionaryIterator {
	return nil
}

// vfPostingsList is the postings of one term in one model segment. Like ice it
// keeps its own bitmap of all postings; an iterator's "actual" bitmap is that
// very bitmap when nothing is excluded and a fresh (postings AND NOT except)
// otherwise. A list with a single posting may be "1-hit" encoded (vfOneHit).
type vfPostingsList struct {
	nums   []uint64        // live postings (after except)
	all    *roaring.Bitmap // the list's own bitmap: every posting, immutable
	except *roaring.Bitmap
}

var vfOneHit bool         // single-posting lists use the 1-hit encoding
var vfAllLists []*vfPostingsList // every list handed out (to check immutability)

func (d *vfDict) PostingsList(term []byte, except *roaring.Bitmap, prealloc segment.PostingsList) (segment.PostingsList, error) {
	pl := &vfPostingsList{all: roaring.NewBitmap(), except: except}
	for i := range d.s.docs {
		if !d.matches(&d.s.docs[i], term) {
			continue
		}
		pl.all.Add(uint32(i))
		if except != nil && except.Contains(uint32(i)) {
			continue
		}
		pl.nums = append(pl.nums, uint64(i))
	}
	vfAllLists = append(vfAllLists, pl)
	return pl, nil
}

func (p *vfPostingsList) Size() int     { return 8 * len(p.nums) }
func (p *vfPostingsList) Count() uint64 { return uint64(len(p.nums)) }
func (p *vfPostingsList) Iterator(includeFreq, includeNorm, includeLocations bool, prealloc segment.PostingsIterator) (segment.PostingsIterator, error) {
	it := &vfPostingsIter{nums: p.nums}
	if vfOneHit && p.all.GetCardinality() == 1 {
		if len(p.nums) == 1 {
			it.oneHit = true
		}
		return it, nil
	}
	if uint64(len(p.nums)) == p.all.GetCardinality() {
		it.actual = p.all // nothing excluded: the list's own bitmap
	} else {
		it.actual = roaring.NewBitmap()
		for _, n := range p.nums {
			it.actual.Add(uint32(n))
		}
	}
	return it, nil
}

type vfPosting struct{ num uint64 }

func (p *vfPosting) Number() uint64              { return p.num }
func (p *vfPosting) SetNumber(n uint64)           { p.num = n }
func (p *vfPosting) Frequency() int               { return 1 }
func (p *vfPosting) Norm() float64                { return 1 }
func (p *vfPosting) Locations() []segment.Location { return nil }
func (p *vfPosting) Size() int                    { return 8 }

type vfPostingsIter struct {
	nums   []uint64
	pos    int
	closed int
	actual *roaring.Bitmap
	oneHit bool
}

func (it *vfPostingsIter) Next() (segment.Posting, error) {
	if it.pos >= len(it.nums) {
		return nil, nil
	}
	it.pos++
	return &vfPosting{it.nums[it.pos-1]}, nil
}

func (it *vfPostingsIter) Advance(docNum uint64) (segment.Posting, error) {
	for it.pos < len(it.nums) && it.nums[it.pos] < docNum {
		it.pos++
	}
	return it.Next()
}

func (it *vfPostingsIter) Size() int     { return 8 * len(it.nums) }
func (it *vfPostingsIter) Empty() bool   { return len(it.nums) == 0 }
func (it *vfPostingsIter) Count() uint64 { return uint64(len(it.nums)) }
func (it *vfPostingsIter) Close() error  { it.closed++; return nil }

// segment.OptimizablePostingsIterator
func (it *vfPostingsIter) ActualBitmap() *roaring.Bitmap { return it.actual }
func (it *vfPostingsIter) DocNum1Hit() (uint64, bool) {
	if it.oneHit {
		return it.nums[0], true
	}
	return 0, false
}
func (it *vfPostingsIter) ReplaceActual(bm *roaring.Bitmap) {
	it.actual = bm
	it.nums = nil
	for _, n := range bm.ToArray() {
		it.nums = append(it.nums, uint64(n))
	}
	it.pos = 0
}

// ---- model plugin ---------------------------------------------------------------------

type vfMerger struct {
	seg     *vfSegment
	docNums [][]uint64
}

func (m *vfMerger) WriteTo(w io.Writer, closeCh chan struct{}) (int64, error) {
	return m.seg.WriteTo(w, closeCh)
}
func (m *vfMerger) DocumentNumbers() [][]uint64 { return m.docNums }

const vfDocDropped = ^uint64(0) >> 1 // math.MaxInt64, the sentinel ice uses for dropped docs

// vfMerge is what SegmentPlugin.Merge promises: the new segment holds, in
// order, the docs of each input not in its drop set; DocumentNumbers maps each
// old number to the new one (or the dropped sentinel).
func vfMerge(segs []segment.Segment, drops []*roaring.Bitmap, id int) segment.Merger {
	vfSeam() // merging is long-running work: other goroutines get to run here
	var docs []vfDoc
	var nums [][]uint64
	for i, sg := range segs {
		vs := vfUnwrap(sg)
		m := make([]uint64, len(vs.docs))
		for j := range vs.docs {
			if i < len(drops) && drops[i] != nil && drops[i].Contains(uint32(j)) {
				m[j] = vfDocDropped
				continue
			}
			m[j] = uint64(len(docs))
			docs = append(docs, vs.docs[j])
		}
		nums = append(nums, m)
	}
	return &vfMerger{seg: vfNewSegment(docs), docNums: nums}
}

func vfUnwrap(sg segment.Segment) *vfSegment {
	switch s := sg.(type) {
	case *vfSegment:
		return s
	case *segmentWrapper:
		return vfUnwrap(s.Segment)
	}
	vfFail("not a model segment")
	return nil
}

func vfLoadSegment(data *segment.Data) (segment.Segment, error) {
	b, err := data.Read(0, data.Len())
	if err != nil {
		return nil, err
	}
	if len(b) != 8 {
		return nil, errors.New("vf: not a model segment file")
	}
	uid := binary.BigEndian.Uint64(b)
	s, ok := vfSegRegistry[uid]
	if !ok {
		return nil, errors.New("vf: unknown model segment")
	}
	return s, nil
}

func vfPlugin() *SegmentPlugin {
	return &SegmentPlugin{Type: "vf", Version: 1, Load: vfLoadSegment, Merge: vfMerge}
}

func vfPlugins() map[string]map[uint32]*SegmentPlugin {
	return map[string]map[uint32]*SegmentPlugin{"vf": {1: vfPlugin()}}
}
