//go:build verif

package index

import (
	"bufio"
	"bytes"
	"encoding/binary"
	"errors"
	"hash/crc32"
	"io"
	"os"

	"github.com/RoaringBitmap/roaring"
)

// bufio.NewReader with the smallest legal buffer, so that buffer boundaries are
// reachable with short inputs (the decoder's logic does not depend on the size).
func vfSmallBufReader(r io.Reader) *bufio.Reader { return bufio.NewReaderSize(r, 16) }

// vfChunkReader delivers the underlying bytes at most `chunk` per Read call (a
// legal io.Reader). With bufio's real 4096-byte buffer this puts records across
// buffer-fill boundaries for short inputs, natively as well as symbolically.
type vfChunkReader struct {
	r     io.Reader
	chunk int
}

func (c *vfChunkReader) Read(p []byte) (int, error) {
	if len(p) > c.chunk {
		p = p[:c.chunk]
	}
	return c.r.Read(p)
}

// io.CopyN by its documented contract (copy exactly n bytes from src to dst, or
// stop at the first error; a short source gives io.EOF), one byte at a time.
// The real one goes through io.LimitedReader and bytes.Buffer.ReadFrom, whose
// `p = p[0:l.N]` slices a 512-byte scratch buffer at a symbolic bound — about
// 500 equivalent concretisations per call in this engine.
func vfCopyN(dst io.Writer, src io.Reader, n int64) (int64, error) {
	var one [1]byte
	var written int64
	for written < n {
		k, err := src.Read(one[:])
		if k == 1 {
			if _, werr := dst.Write(one[:]); werr != nil {
				return written, werr
			}
			written++
		}
		if err != nil {
			return written, err
		}
	}
	return written, nil
}

// hash/crc32.Update replaced by a cheap per-byte rolling checksum. What is
// checked is the gate's logic (the trailer is compared with the checksum of all
// preceding bytes, whatever the read chunking); CRC-32's error-detection
// strength is outside the claim (DESIGN.md C12).
func vfChecksumUpdate(crc uint32, tab *crc32.Table, p []byte) uint32 {
	for _, b := range p {
		crc = (crc<<5 | crc>>27) ^ uint32(b) ^ 0x9e3779b9
	}
	return crc
}

// Opaque model of roaring's (unsafe-based) serialisation: a tiny real codec
// [n, m1 < m2 < ... < mn] over members below 256, so round trips are exact and
// garbage is accepted or rejected deterministically.
func vfRoaringToBytes(rb *roaring.Bitmap) ([]byte, error) {
	out := []byte{0}
	it := rb.Iterator()
	for it.HasNext() {
		v := it.Next()
		if v > 255 {
			return nil, errors.New("vf: model bitmap codec holds members below 256 only")
		}
		out = append(out, byte(v))
		out[0]++
	}
	return out, nil
}

func vfRoaringReadFrom(rb *roaring.Bitmap, reader io.Reader, cookieHeader ...byte) (int64, error) {
	var one [1]byte
	var got []byte
	for len(got) < 300 {
		n, err := reader.Read(one[:])
		if n == 1 {
			got = append(got, one[0])
		}
		if err != nil || n == 0 {
			break
		}
	}
	if len(got) == 0 || int(got[0]) != len(got)-1 {
		return int64(len(got)), errors.New("vf: malformed bitmap")
	}
	for i := 1; i < len(got); i++ {
		if i > 1 && got[i] <= got[i-1] {
			return int64(len(got)), errors.New("vf: malformed bitmap (order)")
		}
		rb.Add(uint32(got[i]))
	}
	return int64(len(got)), nil
}

// C12 totality of the decoder: every byte string of length L is either decoded
// or rejected with an error — never a panic, never an allocation out of
// proportion to the input.
//
// vf:harness property=C12 cases=L:0..13;chunk:3,16 cases.thorough=L:0..16;chunk:1,3,11,16 maxpaths=400000 diff=on
// vf:replace io.CopyN vfCopyN
// vf:replace hash/crc32.Update vfChecksumUpdate
// vf:replace (*github.com/RoaringBitmap/roaring.Bitmap).ReadFrom vfRoaringReadFrom
// vf:bounds every byte string of length L (quick 0..13, thorough 0..16); allocation limit 65536 elements per make (any symbolic length that can exceed it is reported, with a witness of at least 2^27 when one exists)
// vf:assume the source reader delivers at most `chunk` bytes per Read (legal io.Reader behaviour), which moves records across bufio's fill boundaries; roaring (de)serialisation replaced by an opaque model codec (its real code uses unsafe); io.CopyN replaced by its documented contract, byte at a time; hash/crc32.Update replaced by a per-byte rolling checksum (the comparison logic is checked, not CRC-32's strength)
func VF_C12_DecodeTotal(L int, chunk int) {
	b := vfBytes("file", L)
	vfAllocLimit(1 << 16)
	snap := &Snapshot{}
	_, err := snap.ReadFrom(&vfChunkReader{bytes.NewReader(b), chunk})
	if err == nil {
		vfAssert(len(snap.segment) <= L, "an accepted file names at most one segment per byte")
	}
	vfAssert(true, "decoder returned")
}

// C12 loading through the writer: arbitrary bytes as the newest snapshot file.
// No panic, no allocation out of proportion, no use of the item's bytes after
// its closer ran (the mmap loader unmaps there); acceptance implies the CRC
// trailer matches the bytes before it, the closer ran exactly once and every
// named segment was loaded.
//
// vf:harness property=C12 cases=L:0..9;crc:0..1 cases.thorough=L:0..13;crc:0..1 maxpaths=400000 diff=on
// vf:replace bufio.NewReader vfSmallBufReader
// vf:replace io.CopyN vfCopyN
// vf:replace hash/crc32.Update vfChecksumUpdate
// vf:replace (*github.com/RoaringBitmap/roaring.Bitmap).ReadFrom vfRoaringReadFrom
// vf:bounds every byte string of length L (quick 0..9, thorough 0..13) as the snapshot item; CRC validation on and off; one model segment item (id 7) present in the directory
// vf:assume model directory whose Load returns a private copy released by its closer (models munmap); model segment plugin; natively replayed against a real FileSystemDirectory with the default mmap loader
func VF_C12_LoadSnapshotTotal(L int, crc int) {
	b := vfBytes("file", L)
	cfg := Config{ValidateSnapshotCRC: crc == 1, supportedSegmentPlugins: vfPlugins()}
	var w *Writer
	var dir *vfDir
	seg := vfNewSegment([]vfDoc{{id: []byte{'a'}, payload: 1}})
	var sb bytes.Buffer
	seg.WriteTo(&sb, nil)
	if !vfSymbolic() {
		// native replay: the real directory, the real (mmap) loader
		tmp, err := os.MkdirTemp("", "vfc12")
		if err != nil {
			panic(err)
		}
		defer os.RemoveAll(tmp)
		fsd := NewFileSystemDirectory(tmp)
		if err := os.WriteFile(tmp+"/"+fsd.fileName(ItemKindSnapshot, 5), b, 0600); err != nil {
			panic(err)
		}
		if err := os.WriteFile(tmp+"/"+fsd.fileName(ItemKindSegment, 7), sb.Bytes(), 0600); err != nil {
			panic(err)
		}
		w = &Writer{config: cfg, directory: fsd}
	} else {
		vfAllocLimit(1 << 16)
		dir = vfNewDir()
		dir.put(ItemKindSegment, 7, sb.Bytes())
		dir.put(ItemKindSnapshot, 5, b)
		w = &Writer{config: cfg, directory: dir}
	}
	snap, err := w.loadSnapshot(5)
	if vfSymbolic() {
		vfAssert(len(dir.closers) >= 1 && dir.closers[0].closed == 1, "the snapshot item's closer ran exactly once")
	}
	if err == nil {
		vfAssert(snap != nil, "success returns a snapshot")
		vfAssert(L >= 4, "a file shorter than its own CRC trailer is never accepted")
		if crc == 1 && L >= 4 {
			vfAssert(binary.BigEndian.Uint32(b[L-4:]) == crc32.Update(0, crc32.IEEETable, b[:L-4]), "accepted only if the trailer is the CRC of the preceding bytes")
		}
		for _, ss := range snap.segment {
			vfAssert(ss.segment != nil, "every named segment was loaded")
			vfAssert(ss.id == 7, "only existing segment items can be named by an accepted snapshot")
		}
		vfAssert(len(snap.offsets) == len(snap.segment), "offsets computed for every segment")
	} else {
		vfAssert(snap == nil, "failure returns no snapshot")
	}
}

func vfSnapEqual(a, b *Snapshot) bool {
	if len(a.segment) != len(b.segment) {
		return false
	}
	ok := true
	for i := range a.segment {
		x, y := a.segment[i], b.segment[i]
		ok = vfAll(ok, x.id == y.id, x.segmentType == y.segmentType, x.segmentVersion == y.segmentVersion)
		if (x.deleted == nil) != (y.deleted == nil) {
			return false
		}
		if x.deleted != nil && !x.deleted.Equals(y.deleted) {
			return false
		}
	}
	return ok
}

type vfTypedSegment struct {
	*vfSegment
	typ string
	ver uint32
}

func (s *vfTypedSegment) Type() string    { return s.typ }
func (s *vfTypedSegment) Version() uint32 { return s.ver }

// C12 round trip: every snapshot the index can produce is read back as the same
// list of segment ids, types, versions and deleted sets; the trailer is the
// CRC-32 of everything before it.
//
// vf:harness property=C12 cases=nseg:0..2;del:0..2;tlen:1,3,7;chunk:3,16 cases.thorough=nseg:0..3;del:0..3;tlen:0,3,7,12;chunk:1,3,11,16 diff=on
// vf:replace io.CopyN vfCopyN
// vf:replace hash/crc32.Update vfChecksumUpdate
// vf:replace (*github.com/RoaringBitmap/roaring.Bitmap).ReadFrom vfRoaringReadFrom
// vf:replace (*github.com/RoaringBitmap/roaring.Bitmap).ToBytes vfRoaringToBytes
// vf:bounds nseg segments (quick 0..2, thorough 0..3) with arbitrary 64-bit ids (all ten varint lengths) and 32-bit versions; type string of tlen arbitrary bytes; deleted set absent or the first `del` of docs {0,3,200}; source delivered in chunks of `chunk` bytes so records straddle bufio fill boundaries
// vf:assume roaring codec replaced by the model codec; chunked source reader; crc32.Update replaced by a rolling checksum
func VF_C12_RoundTrip(nseg int, del int, tlen int, chunk int) {
	snap := &Snapshot{epoch: 9}
	typ := vfString("type", tlen)
	for i := 0; i < nseg; i++ {
		ss := &segmentSnapshot{
			id:      vfUint64("id"),
			segment: &segmentWrapper{Segment: &vfTypedSegment{vfNewSegment(nil), typ, vfUint32("ver")}},
		}
		if del > 0 && i == 0 {
			ss.deleted = roaring.NewBitmap()
			for _, m := range []uint32{0, 3, 200}[:del] {
				ss.deleted.Add(m)
			}
		}
		snap.segment = append(snap.segment, ss)
	}
	var buf bytes.Buffer
	n, err := snap.WriteTo(&buf, nil)
	vfAssert(err == nil, "WriteTo succeeds")
	out := buf.Bytes()
	vfAssert(int(n) == len(out), "WriteTo reports the bytes written")
	vfAssert(len(out) >= 6, "version, count and CRC are always present")
	vfAssert(binary.BigEndian.Uint32(out[len(out)-4:]) == crc32.Update(0, crc32.IEEETable, out[:len(out)-4]), "trailer is the CRC-32 of the preceding bytes")

	back := &Snapshot{}
	_, err = back.ReadFrom(&vfChunkReader{bytes.NewReader(out[:len(out)-4]), chunk})
	vfAssert(err == nil, "ReadFrom accepts what WriteTo produced")
	if err == nil {
		want := &Snapshot{}
		for _, ss := range snap.segment {
			want.segment = append(want.segment, &segmentSnapshot{id: ss.id, segmentType: ss.segment.Type(), segmentVersion: ss.segment.Version(), deleted: ss.deleted})
		}
		vfAssert(vfSnapEqual(want, back), "same segment ids, types, versions and deleted sets")
	}
}
