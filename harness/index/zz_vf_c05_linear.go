//go:build verif

package index

import "github.com/RoaringBitmap/roaring"

// C05 data part: two batches prepared concurrently against the same root (each
// with its own, arbitrarily incomplete optimistic view — neither knows the
// other's new segment) and introduced one after the other in either order give
// exactly the sequential result in the introduction order, and a reader taken
// between the two introductions sees exactly the first one (a prefix).
//
// vf:harness property=C05 cases=nseg:0..1;dp:1;nuA:0..1;ndA:0..1;nuB:0..1;ndB:0..1|nseg:2;dp:1;nuA:1;ndA:0;nuB:0;ndB:1 goinline=1 chanslack=8 maxpaths=900000
// vf:bounds arbitrary valid root of nseg segments of dp docs; batches A and B with nu documents and nd deletes each, arbitrary (colliding) one-byte ids, ids within one batch distinct; optimistic obsoletes of each batch computed on the common root for an arbitrary subset of its segments; introduction order A,B or B,A
// vf:assume the introducer applies one introduction at a time (single goroutine, rootLock); the real-time part of linearizability (Batch returns only after its introduction) needs the goroutine loops and is outside tier 1
func VF_C05_TwoBatchesEitherOrder(nseg int, dp int, nuA int, ndA int, nuB int, ndB int) {
	st := vfArbitraryRoot(nseg, dp, 5)
	w := st.w
	a := vfMakeBatch(nuA, ndA, true)
	b := vfMakeBatch(nuB, ndB, true)
	// both prepared against the same root
	prep := func(sp *vfBatchSpec, id uint64) *segmentIntroduction {
		intro := &segmentIntroduction{id: id, idTerms: sp.batch.ids, obsoletes: map[uint64]*roaring.Bitmap{}, applied: make(chan error, 1)}
		if sp.segment != nil {
			intro.data = &segmentWrapper{Segment: sp.segment, refCounter: noOpRefCounter{}}
		}
		for _, ss := range w.root.segment {
			if vfBool("seen-by-optimistic-pass") {
				delta, _ := ss.segment.DocsMatchingTerms(sp.batch.ids)
				intro.obsoletes[ss.id] = delta
			}
		}
		return intro
	}
	ia, ib := prep(a, 101), prep(b, 102)
	first, second := a, b
	i1, i2 := ia, ib
	if vfBool("b-first") {
		first, second = b, a
		i1, i2 = ib, ia
	}
	vfAssert(w.introduceSegment(i1, 6) == nil, "first introduction succeeds")
	mid, _ := w.Reader()
	want1 := vfApply(st.docs, first)
	vfExpect(mid, vfFlatten(want1), "reader between the two introductions (prefix)")
	vfAssert(w.introduceSegment(i2, 7) == nil, "second introduction succeeds")
	fin, _ := w.Reader()
	want2 := vfApply(want1, second)
	vfExpect(fin, vfFlatten(want2), "after both introductions (sequential result in introduction order)")
	vfCheckRI(fin)
	// the reader taken in between is unaffected by the second introduction
	vfExpect(mid, vfFlatten(want1), "the in-between reader, re-read after the second introduction")
	_ = mid.Close()
	_ = fin.Close()
}
