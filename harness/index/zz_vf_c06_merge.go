//go:build verif

package index

import (
	"github.com/RoaringBitmap/roaring"
	segment "github.com/blugelabs/bluge_segment_api"
)

// vfMergeScenario builds (a) the root as it was when a merge over the segment
// subset M was planned, (b) the real merge result over M at that moment (model
// merger = the plugin contract), and (c) an arbitrary current root reachable
// from (a) by later batches: every original segment has a superset of its
// plan-time deletions and is gone if nothing is live any more, new segments may
// have been appended.
type vfMergeScenario struct {
	st       *vfIdx
	merge    *segmentMerge
	inMerge  []bool
	expected []vfADoc // abstract content expected after the merge introduction, in order
	anyLiveInMerged bool
	mergedClosers   []*vfSegCloser
	keptClosers     []*vfSegCloser
}

func vfBuildMerge(nseg, dp, extra int) *vfMergeScenario {
	sc := &vfMergeScenario{}
	st := &vfIdx{}
	w := &Writer{config: Config{supportedSegmentPlugins: vfPlugins()}, segPlugin: vfPlugin()}
	w.nextSegmentID = 100
	st.w = w
	type segInfo struct {
		seg        *vfSegment
		wrap       *segmentWrapper
		closer     *vfSegCloser
		delPlan    *roaring.Bitmap
		delNow     *roaring.Bitmap
		adocs      []vfADoc // liveness now
		livePlan   []bool
		liveNowCnt int
	}
	var infos []*segInfo
	nMerged := 0
	for i := 0; i < nseg; i++ {
		in := &segInfo{closer: &vfSegCloser{}}
		var docs []vfDoc
		livePlanCnt := 0
		for j := 0; j < dp; j++ {
			d := vfDoc{id: []byte{vfByte("id")}, payload: vfByte("payload")}
			docs = append(docs, d)
			delAtPlan := vfBool("deleted-at-plan")
			delSince := false
			if !delAtPlan {
				livePlanCnt++
				delSince = vfBool("deleted-since")
			}
			if delAtPlan {
				if in.delPlan == nil {
					in.delPlan = roaring.NewBitmap()
				}
				in.delPlan.Add(uint32(j))
			}
			if delAtPlan || delSince {
				if in.delNow == nil {
					in.delNow = roaring.NewBitmap()
				}
				in.delNow.Add(uint32(j))
			} else {
				in.liveNowCnt++
			}
			in.livePlan = append(in.livePlan, !delAtPlan)
			in.adocs = append(in.adocs, vfADoc{id: d.id[0], payload: d.payload, live: !delAtPlan && !delSince})
		}
		vfAssume(livePlanCnt > 0) // RI at plan time
		in.seg = vfNewSegment(docs)
		persisted := vfBool("persisted")
		var rc refCounter = noOpRefCounter{}
		if persisted {
			rc = &closeOnLastRefCounter{closer: in.closer, refs: 1}
		}
		in.wrap = &segmentWrapper{Segment: in.seg, refCounter: rc, persisted: persisted}
		infos = append(infos, in)
		merged := vfBool("in-merge")
		sc.inMerge = append(sc.inMerge, merged)
		if merged {
			nMerged++
		}
	}
	vfAssume(nMerged > 0)

	// the merge, computed at plan time over M with the plan-time deletions
	var msegs []segment.Segment
	var mdrops []*roaring.Bitmap
	old := map[uint64]*segmentSnapshot{}
	for i, in := range infos {
		if !sc.inMerge[i] {
			continue
		}
		msegs = append(msegs, in.wrap)
		mdrops = append(mdrops, in.delPlan)
		old[uint64(10+i)] = &segmentSnapshot{id: uint64(10 + i), segment: in.wrap, deleted: in.delPlan, creator: "vf-plan"}
	}
	merger := vfMerge(msegs, mdrops, 1).(*vfMerger)
	newWrap := &segmentWrapper{Segment: merger.seg, refCounter: &closeOnLastRefCounter{closer: &vfSegCloser{}, refs: 1}, persisted: true}
	sm := &segmentMerge{id: 50, old: old, oldNewDocNums: map[uint64][]uint64{}, new: newWrap, notifyCh: make(chan *mergeTaskIntroStatus, 1)}
	k := 0
	for i := range infos {
		if sc.inMerge[i] {
			sm.oldNewDocNums[uint64(10+i)] = merger.docNums[k]
			k++
		}
	}
	sc.merge = sm

	// the current root
	root := &Snapshot{parent: w, epoch: 7, refs: 1, creator: "vf-now"}
	var running uint64
	for i, in := range infos {
		if in.liveNowCnt == 0 {
			continue // fully obsoleted since: no longer in the root
		}
		root.segment = append(root.segment, &segmentSnapshot{id: uint64(10 + i), segment: in.wrap, deleted: in.delNow, creator: "vf"})
		root.offsets = append(root.offsets, running)
		running += uint64(dp)
		if sc.inMerge[i] {
			sc.mergedClosers = append(sc.mergedClosers, in.closer)
		} else {
			sc.keptClosers = append(sc.keptClosers, in.closer)
		}
		if !in.wrap.persisted {
			// closers of in-memory segments never fire
			if sc.inMerge[i] {
				sc.mergedClosers = sc.mergedClosers[:len(sc.mergedClosers)-1]
			} else {
				sc.keptClosers = sc.keptClosers[:len(sc.keptClosers)-1]
			}
		}
	}
	var extraDocs [][]vfADoc
	for e := 0; e < extra; e++ {
		d := vfDoc{id: []byte{vfByte("id")}, payload: vfByte("payload")}
		seg := vfNewSegment([]vfDoc{d})
		root.segment = append(root.segment, &segmentSnapshot{id: uint64(30 + e), segment: &segmentWrapper{Segment: seg, refCounter: noOpRefCounter{}}, creator: "vf-later"})
		root.offsets = append(root.offsets, running)
		running++
		extraDocs = append(extraDocs, []vfADoc{{id: d.id[0], payload: d.payload, live: true}})
	}
	w.root = root
	vfCheckRI(root)

	// expected content afterwards: surviving non-merged segments in order, then
	// the merged segment's docs (those live at plan time), live iff still live now
	for i, in := range infos {
		if sc.inMerge[i] || in.liveNowCnt == 0 {
			continue
		}
		sc.expected = append(sc.expected, in.adocs...)
	}
	for _, seg := range extraDocs {
		sc.expected = append(sc.expected, seg...)
	}
	for i, in := range infos {
		if !sc.inMerge[i] {
			continue
		}
		for j, ad := range in.adocs {
			if in.livePlan[j] {
				sc.expected = append(sc.expected, ad)
				if ad.live {
					sc.anyLiveInMerged = true
				}
			}
		}
	}
	sc.st = st
	return sc
}

// C06 merge introduction, one step: for every plan-time root, every merged
// subset, and every current root reachable since (more deletions on merged and
// other segments, merged segments fully obsoleted and gone, new segments), the
// real introduceMerge leaves the logical content unchanged — no delete lost, no
// document dropped or duplicated — skips exactly when nothing live remains in
// the merged segment, and restores the representation invariant.
//
// vf:harness property=C06 cases=nseg:1..2;dp:1..2;extra:0..1|nseg:1;dp:3;extra:0 goinline=1 chanslack=8 maxpaths=600000
// vf:bounds nseg plan-time segments (quick 1..2, thorough 3) of dp docs (1..2, thorough 3), arbitrary ids/payloads; per doc: deleted at plan time, deleted since, or live (arbitrary, at least one doc live at plan time per segment); any non-empty subset merged; segments whose docs were all deleted since are absent from the current root; 0..1 segments appended since
// vf:assume model merger = the SegmentPlugin.Merge contract (surviving docs in order, DocumentNumbers maps old to new numbers); goroutines of postingsIteratorAll inline
func VF_C06_StepMerge(nseg int, dp int, extra int) {
	sc := vfBuildMerge(nseg, dp, extra)
	w := sc.st.w
	before := vfContent(w.root)
	// a reader of the root the merge is introduced over (it shares that root's bitmaps)
	heldNow, _ := w.Reader()
	fpNow := vfFingerprintOf(heldNow)
	w.introduceMerge(sc.merge, 8)
	vfSameFingerprint(heldNow, fpNow, "a reader held across the merge introduction")
	_ = heldNow.Close()
	var status *mergeTaskIntroStatus
	select {
	case status = <-sc.merge.notifyCh:
	default:
	}
	vfAssert(status != nil && status.snapshot != nil, "the merger is notified with the new snapshot")
	r, _ := w.Reader()
	vfAssert(r == status.snapshot, "the notified snapshot is the new root")
	vfCheckRI(r)
	vfExpect(r, sc.expected, "after the merge introduction")
	after := vfContent(r)
	vfAssert(len(after) == len(before), "the number of live documents is unchanged by a merge")
	vfAssert(status.skipped == !sc.anyLiveInMerged, "the merge is skipped exactly when nothing live remains in the merged segment")
	hasMerged := false
	for _, ss := range r.segment {
		if ss.id == sc.merge.id {
			hasMerged = true
		}
		for id := range sc.merge.old {
			_ = id
		}
	}
	vfAssert(hasMerged == !status.skipped, "the merged segment is in the root iff the merge was not skipped")
	for _, ss := range r.segment {
		for i, m := range sc.inMerge {
			if m {
				vfAssert(ss.id != uint64(10+i), "no merged-away segment stays in the root next to its merged copy")
			}
		}
	}
	for _, c := range sc.keptClosers {
		vfAssert(c.closed == 0, "a segment still in the root is not closed")
	}
	for _, c := range sc.mergedClosers {
		vfAssert(c.closed == 1, "a merged-away file segment is released exactly once when the old root goes")
	}
	_ = r.Close()
}

// C06 persist swap: replacing in-memory segments by their persisted copies
// keeps ids, order, offsets and deleted sets.
//
// vf:harness property=C06 cases=nseg:0..2;dp:1..2 cases.thorough=nseg:0..3;dp:1..2 goinline=1 chanslack=8
// vf:bounds arbitrary valid root of nseg segments of dp docs; an arbitrary subset of its segments (plus possibly one segment id no longer in the root) is swapped for freshly loaded copies
func VF_C06_StepPersistSwap(nseg int, dp int) {
	st := vfArbitraryRoot(nseg, dp, 5)
	w := st.w
	persisted := map[uint64]*segmentWrapper{}
	var newClosers []*vfSegCloser
	swapped := map[uint64]bool{}
	for i, ss := range w.root.segment {
		if vfBool("swap") {
			c := &vfSegCloser{}
			newClosers = append(newClosers, c)
			persisted[ss.id] = &segmentWrapper{Segment: st.segs[i], refCounter: &closeOnLastRefCounter{closer: c, refs: 1}, persisted: true}
			swapped[ss.id] = true
		}
	}
	if vfBool("stale-entry") {
		persisted[999] = &segmentWrapper{Segment: vfNewSegment(nil), refCounter: &closeOnLastRefCounter{closer: &vfSegCloser{}, refs: 1}, persisted: true}
	}
	before := vfContent(w.root)
	oldRoot := w.root
	pi := &persistIntroduction{persisted: persisted, applied: make(notificationChan)}
	w.introducePersist(pi, 6)
	r, _ := w.Reader()
	vfCheckRI(r)
	vfExpect(r, vfFlatten(st.docs), "after the persist swap")
	after := vfContent(r)
	vfAssert(len(after) == len(before), "same number of live documents")
	vfAssert(len(r.segment) == len(oldRoot.segment), "same number of segments")
	for i, ss := range r.segment {
		vfAssert(ss.id == oldRoot.segment[i].id, "segment ids and order kept")
		vfAssert(ss.deleted == oldRoot.segment[i].deleted, "deleted set carried over unchanged")
		if swapped[ss.id] {
			vfAssert(ss.segment.Persisted(), "swapped segment is the persisted copy")
		}
	}
	select {
	case <-pi.applied:
	default:
		vfFail("persist introduction not acknowledged")
	}
	for _, c := range newClosers {
		vfAssert(c.closed == 0, "a freshly swapped-in segment stays open")
	}
	_ = r.Close()
}

// C06 across two real steps (aliasing between snapshots): a merge is planned
// against the current root (holding that root's segmentSnapshot values, as the
// merger does), a batch with deletes lands through the real introduceSegment,
// then the merge is introduced. The delete must survive the merge.
//
// vf:harness property=C06 cases=nseg:1..2;dp:2;nd:1 cases.thorough=nseg:1..2;dp:2..3;nd:1..2 goinline=1 chanslack=8 maxpaths=600000
// vf:bounds arbitrary valid root of nseg segments of dp docs; all its segments merged (plan-time view = the root's own segmentSnapshot values); a delete-only batch of nd arbitrary ids lands in between
func VF_C06_BatchThenMerge(nseg int, dp int, nd int) {
	st := vfArbitraryRoot(nseg, dp, 5)
	w := st.w
	// plan: exactly what planSegmentsToMerge + merge do
	planRoot := w.currentSnapshot()
	var msegs []segment.Segment
	var mdrops []*roaring.Bitmap
	old := map[uint64]*segmentSnapshot{}
	for _, ss := range planRoot.segment {
		old[ss.id] = ss
		msegs = append(msegs, ss.segment)
		mdrops = append(mdrops, ss.deleted)
	}
	merger := vfMerge(msegs, mdrops, 1).(*vfMerger)
	sm := &segmentMerge{id: 50, old: old, oldNewDocNums: map[uint64][]uint64{}, notifyCh: make(chan *mergeTaskIntroStatus, 1),
		new: &segmentWrapper{Segment: merger.seg, refCounter: &closeOnLastRefCounter{closer: &vfSegCloser{}, refs: 1}, persisted: true}}
	for i, ss := range planRoot.segment {
		sm.oldNewDocNums[ss.id] = merger.docNums[i]
	}
	// a batch lands
	sp := vfMakeBatch(0, nd, true)
	vfIntroduce(st, sp, 6)
	want := vfApply(st.docs, sp)
	// the merge is introduced
	w.introduceMerge(sm, 7)
	r, _ := w.Reader()
	vfCheckRI(r)
	var exp []vfADoc
	for i, seg := range want {
		for j, d := range seg {
			if st.docs[i][j].live { // docs deleted at plan time are not in the merged segment
				exp = append(exp, d)
			}
		}
	}
	vfExpect(r, exp, "after batch then merge introduction")
	_ = planRoot.Close()
	_ = r.Close()
}

// C04 clause of the same step: the reader of the root a merge is introduced over
// is not disturbed by it (the step above asserts it; registered under C04 with a
// smaller case set so that C04's own check reports it).
//
// vf:harness property=C04 cases=nseg:1;dp:2;extra:0|nseg:2;dp:1..2;extra:0 cases.thorough=nseg:1..2;dp:1..3;extra:0..1 goinline=1 chanslack=8 maxpaths=600000
// vf:bounds as VF_C06_StepMerge with fewer plan-time shapes
// vf:assume as VF_C06_StepMerge
func VF_C04_ReaderAcrossMergeIntroduction(nseg int, dp int, extra int) {
	VF_C06_StepMerge(nseg, dp, extra)
}
