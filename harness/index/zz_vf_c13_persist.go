//go:build verif

package index

import (
	"bytes"
	"os"
	"path/filepath"
)

func vfChunks(name string, size int) [][]byte {
	if size == 0 {
		return nil
	}
	all := vfBytes(name, size)
	h := (size + 1) / 2
	if h == size {
		return [][]byte{all}
	}
	return [][]byte{all[:h], all[h:]}
}

// C13 content clause: for every prior state of the item's file (absent,
// shorter, equal, longer; arbitrary content) and every item, a successful
// Persist leaves exactly the bytes written, flushed; a failed or cancelled one
// leaves no file under the item's name. Environment operations do not fail in
// this harness (writer-side failure and cancellation do), so a counterexample
// replays natively against a real temporary directory.
//
// vf:harness property=C13 cases=prior:-1..6;size:0..4;fail:-1..2;kind:0..1 cases.thorough=prior:-1..10;size:0..8;fail:-1..3;kind:0..1 diff=on
// vf:replace (*os.File).Write vfFileWrite
// vf:replace (*os.File).Sync vfFileSync
// vf:replace (*os.File).Truncate vfFileTruncate
// vf:replace (*os.File).Close vfFileClose
// vf:replace os.Remove vfRemove
// vf:bounds prior file: absent (-1) or 0..6 bytes (thorough 10) of arbitrary content; item 0..4 bytes (thorough 8) in up to two writes, arbitrary content; writer fails before chunk `fail` (-1 never; fail == number of chunks means after the last write) or sees cancellation (fail=2 with closed channel in quick); both item kinds
// vf:assume POSIX file model (open keeps content unless O_TRUNC/Truncate; write at offset extends but never shrinks; O_APPEND writes at end); flock not modelled (single process)
func VF_C13_PersistExact(prior int, size int, fail int, kind int) {
	kindStr := ItemKindSegment
	if kind == 1 {
		kindStr = ItemKindSnapshot
	}
	const id = 0x2a
	w := &vfItemWriter{chunks: vfChunks("item", size), failAfter: fail}
	var closeCh chan struct{}
	cancelled := false
	if fail == 3 || (fail == 2 && len(w.chunks) < 2) {
		// cancellation instead of a writer error
		w.failAfter = -1
		closeCh = make(chan struct{})
		close(closeCh)
		cancelled = len(w.chunks) > 0
	}
	var priorData []byte
	if prior >= 0 {
		priorData = vfBytes("prior", prior)
	}

	var d *FileSystemDirectory
	var path string
	if vfSymbolic() {
		vfFSReset(false)
		d = NewFileSystemDirectory("/idx")
		d.openExclusive = vfOpen
		path = filepath.Join("/idx", d.fileName(kindStr, id))
		if prior >= 0 {
			vfFS.files[path] = &vfFile{exists: true, data: append([]byte(nil), priorData...)}
		}
	} else {
		tmp, err := os.MkdirTemp("", "vfc13")
		if err != nil {
			panic(err)
		}
		defer os.RemoveAll(tmp)
		d = NewFileSystemDirectory(tmp)
		path = filepath.Join(tmp, d.fileName(kindStr, id))
		if prior >= 0 {
			if err := os.WriteFile(path, priorData, 0600); err != nil {
				panic(err)
			}
		}
	}

	err := d.Persist(kindStr, id, w, closeCh)

	var exists bool
	var content []byte
	if vfSymbolic() {
		f := vfFS.files[path]
		exists = f != nil && f.exists
		if exists {
			content = f.data
		}
	} else {
		b, rerr := os.ReadFile(path)
		exists = rerr == nil
		content = b
	}

	wantFail := w.failAfter >= 0 && w.failAfter <= len(w.chunks) || cancelled
	vfAssert((err != nil) == wantFail, "Persist fails exactly when the item writer fails or is cancelled")
	if err == nil {
		vfAssert(exists, "success: the item's file exists")
		vfAssert(len(content) == len(w.written), "success: the file has exactly the length written (no stale tail of an older, longer file)")
		if len(content) == len(w.written) {
			vfAssert(bytes.Equal(content, w.written), "success: the file holds exactly the bytes written")
		}
		if vfSymbolic() {
			f := vfFS.files[path]
			vfAssert(!f.dirty, "success: a flush was issued after the last byte was written")
			vfAssert(f.syncs >= 1, "success: fsync was called on the item's file")
		}
	} else {
		vfAssert(!exists, "failure: no file is left under the item's name")
	}
	if vfSymbolic() {
		vfAssert(vfFS.opened == vfFS.closed, "every opened handle is closed before Persist returns")
	}
}

// C13 with environment faults: any of open / write (short) / sync / close /
// remove may fail, placement symbolic. Success still means exact + flushed;
// failure means nothing is left unless the clean-up removal itself was made to
// fail. Model-only: a failing fsync or close cannot be provoked natively.
//
// vf:harness property=C13 cases=prior:-1..3;size:0..3 cases.thorough=prior:-1..6;size:0..5 replay=model-only
// vf:replace (*os.File).Write vfFileWrite
// vf:replace (*os.File).Sync vfFileSync
// vf:replace (*os.File).Truncate vfFileTruncate
// vf:replace (*os.File).Close vfFileClose
// vf:replace os.Remove vfRemove
// vf:bounds prior file absent or 0..3 bytes (thorough 6); item 0..3 bytes (thorough 5); every subset and placement of injected faults on open, each write (any short length), truncate, sync, close, remove
// vf:assume POSIX file model as above; each operation may fail where its contract allows (symbolic choice per call)
func VF_C13_PersistFaults(prior int, size int) {
	const id = 0x2b
	w := &vfItemWriter{chunks: vfChunks("item", size), failAfter: -1}
	vfFSReset(true)
	d := NewFileSystemDirectory("/idx")
	d.openExclusive = vfOpen
	path := filepath.Join("/idx", d.fileName(ItemKindSegment, id))
	if prior >= 0 {
		vfFS.files[path] = &vfFile{exists: true, data: vfBytes("prior", prior)}
	}
	err := d.Persist(ItemKindSegment, id, w, nil)
	f := vfFS.files[path]
	exists := f != nil && f.exists
	if err == nil {
		vfAssert(exists, "success: the item's file exists")
		vfAssert(len(f.data) == len(w.written) && len(w.written) == size, "success: exact length")
		if len(f.data) == len(w.written) {
			vfAssert(bytes.Equal(f.data, w.written), "success: exact bytes")
		}
		vfAssert(!f.dirty, "success: flushed after the last write")
	} else if !vfFS.removeFailed && vfFS.opened > 0 {
		vfAssert(!exists, "failure: no partial file left (when the clean-up removal was not itself made to fail)")
	}
	vfAssert(vfFS.opened == vfFS.closed, "every opened handle is closed before Persist returns")
}
