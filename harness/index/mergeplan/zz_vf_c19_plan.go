//go:build verif

package mergeplan

type vfSeg struct {
	id         uint64
	full, live int64
}

func (s *vfSeg) ID() uint64      { return s.id }
func (s *vfSeg) FullSize() int64 { return s.full }
func (s *vfSeg) LiveSize() int64 { return s.live }

// Hooks returning arbitrary values: well-formedness must not depend on the
// budget or on roster scores. Values are memoised per call index so that a
// second run of the planner sees the same hook answers (determinism check).
var vfHooks struct {
	budget    []int
	scores    []float64
	nb, ns    int
	memoising bool
}

func vfCalcBudget(totalSize int64, firstTierSize int64, o *Options) int {
	h := &vfHooks
	if h.nb == len(h.budget) {
		h.budget = append(h.budget, vfInt("budget"))
	}
	h.nb++
	return h.budget[h.nb-1]
}

func vfScoreSegments(segments []Segment, o *Options) float64 {
	h := &vfHooks
	if h.ns == len(h.scores) {
		h.scores = append(h.scores, vfFloat64("score"))
	}
	h.ns++
	return h.scores[h.ns-1]
}

func vfMakeSegments(n int) []Segment {
	segs := make([]Segment, n)
	for i := 0; i < n; i++ {
		s := &vfSeg{id: uint64(i + 1), full: vfInt64("full"), live: vfInt64("live")}
		vfAssume(0 <= s.live)
		vfAssume(s.live <= s.full)
		vfAssume(s.full < 1<<40)
		segs[i] = s
	}
	return segs
}

func vfOptions() *Options { return vfOptionsPer(0) }

// per > 0 fixes SegmentsPerMergeTask (used to keep the n = 4 case within reach)
func vfOptionsPer(per int) *Options {
	o := &Options{
		MaxSegmentsPerTier:   10,
		TierGrowth:           10.0,
		ReclaimDeletesWeight: 2.0,
		MaxSegmentSize:       vfInt64("maxSegmentSize"),
		SegmentsPerMergeTask: vfInt("segmentsPerMergeTask"),
		FloorSegmentSize:     vfInt64("floor"),
		CalcBudget:           vfCalcBudget,
		ScoreSegments:        vfScoreSegments,
	}
	vfAssume(o.MaxSegmentSize >= 2)
	vfAssume(o.MaxSegmentSize <= 1<<41)
	vfAssume(o.SegmentsPerMergeTask >= 1)
	vfAssume(o.SegmentsPerMergeTask <= 4)
	if per > 0 {
		o.SegmentsPerMergeTask = per
	}
	vfAssume(o.FloorSegmentSize >= 0)
	vfAssume(o.FloorSegmentSize < 1<<40)
	return o
}

func vfCheckPlan(p *MergePlan, segs []Segment, o *Options) {
	if p == nil {
		return
	}
	used := map[Segment]bool{}
	for _, task := range p.Tasks {
		vfAssert(len(task.Segments) > 0, "no empty task")
		var sum int64
		for _, s := range task.Segments {
			isInput := false
			for _, in := range segs {
				if in == s {
					isInput = true
				}
			}
			vfAssert(isInput, "task segment comes from the input")
			vfAssert(!used[s], "a segment appears in at most one task, once")
			used[s] = true
			vfAssert(s.LiveSize() < o.MaxSegmentSize/2, "no task touches a segment at or above half the maximum size")
			sum += s.LiveSize()
		}
		vfAssert(sum < o.MaxSegmentSize, "a task never combines live data up to the maximum segment size")
	}
	// progress (the step behind the boundedness clause): planning stops only
	// when every mergeable segment (live size below half the maximum) is
	// planned, or what is left plus the planned tasks fits the budget.
	left := 0
	for _, in := range segs {
		if in.LiveSize() < o.MaxSegmentSize/2 && !used[in] {
			left++
		}
	}
	if len(vfHooks.budget) > 0 {
		vfAssert(left == 0 || left+len(p.Tasks) <= vfHooks.budget[0], "progress: mergeable segments left + tasks within the budget, or none left")
	}
}

func vfSamePlan(a, b *MergePlan) bool {
	if a == nil || b == nil {
		return a == b
	}
	if len(a.Tasks) != len(b.Tasks) {
		return false
	}
	for i := range a.Tasks {
		if len(a.Tasks[i].Segments) != len(b.Tasks[i].Segments) {
			return false
		}
		for j := range a.Tasks[i].Segments {
			if a.Tasks[i].Segments[j] != b.Tasks[i].Segments[j] {
				return false
			}
		}
	}
	return true
}

// C19: for every list of n segments (arbitrary sizes, arbitrary deleted
// fractions, ties) and every option setting in range, with arbitrary budget
// and score hooks, the real planner terminates and returns a well-formed plan;
// run again on the same input (same hook answers) it returns the same plan.
//
// vf:harness property=C19 cases=n:0..3;per:0 cases.thorough=n:0..3;per:0|n:4;per:2..3 unwind=200
// vf:bounds n segments concrete (quick 0..3, thorough 0..4, where n = 4 is run with SegmentsPerMergeTask fixed at 2 and at 3); 0 <= live <= full < 2^40 symbolic; MaxSegmentSize in [2,2^41], SegmentsPerMergeTask in [1,4], floor in [0,2^40) symbolic; CalcBudget and ScoreSegments return arbitrary int / float64 (incl. NaN, Inf) on every call
// vf:assume Options.CalcBudget and Options.ScoreSegments (documented hooks) are replaced by arbitrary-value hooks, so the default float scoring/budget code is not encoded
func VF_C19_PlanWellFormed(n int, per int) {
	h := &vfHooks
	h.budget, h.scores, h.nb, h.ns = nil, nil, 0, 0
	segs := vfMakeSegments(n)
	o := vfOptionsPer(per)
	p, err := Plan(segs, o)
	vfAssert(err == nil, "no error")
	if n <= 1 {
		vfAssert(p == nil, "nothing to plan for fewer than two segments")
	}
	vfCheckPlan(p, segs, o)
	// the input slice is not reordered
	for i, s := range segs {
		vfAssert(s.(*vfSeg).id == uint64(i+1), "input slice left in its order")
	}
	// determinism: same input, same hook answers
	h.nb, h.ns = 0, 0
	p2, _ := Plan(segs, o)
	vfAssert(vfSamePlan(p, p2), "same input gives the same plan")
}

// The sort used by the planner is a strict weak order consistent with the
// documented key (live size descending, then id ascending).
//
// vf:harness property=C19
// vf:bounds three segments, all int64 live sizes and uint64 ids
func VF_C19_SortOrder() {
	a := byLiveSizeDescending{
		&vfSeg{id: vfUint64("id"), live: vfInt64("live")},
		&vfSeg{id: vfUint64("id"), live: vfInt64("live")},
		&vfSeg{id: vfUint64("id"), live: vfInt64("live")},
	}
	l01, l10, l12, l02 := a.Less(0, 1), a.Less(1, 0), a.Less(1, 2), a.Less(0, 2)
	vfAssert(!vfAll(l01, l10), "asymmetric")
	vfAssert(vfImplies(vfAll(l01, l12), l02), "transitive")
	same := vfAll(a[0].LiveSize() == a[1].LiveSize(), a[0].ID() == a[1].ID())
	vfAssert(vfAny(l01, l10) == !same, "total up to equal keys")
	vfAssert(!a.Less(0, 0), "irreflexive")
}

// Options validation accepts exactly sizes up to the documented limit.
//
// vf:harness property=C19
// vf:bounds MaxSegmentSize: all int64
func VF_C19_ValidateOptions() {
	o := &Options{MaxSegmentSize: vfInt64("max")}
	err := ValidateMergePlannerOptions(o)
	vfAssert((err == nil) == (o.MaxSegmentSize <= MaxSegmentSizeLimit), "accepted iff within the limit")
	f := vfInt64("floor")
	s := vfInt64("s")
	o.FloorSegmentSize = f
	r := o.RaiseToFloorSegmentSize(s)
	vfAssert(r >= s && r >= f && (r == s || r == f), "RaiseToFloorSegmentSize is max(s, floor)")
}

