//go:build verif

package index

import (
	"github.com/RoaringBitmap/roaring"
	segment "github.com/blugelabs/bluge_segment_api"
)

type vfFingerprint struct {
	content []vfSeen
	ids     []uint64
	offsets []uint64
	deleted [][]uint32
	count   uint64
}

func vfFingerprintOf(s *Snapshot) *vfFingerprint {
	fp := &vfFingerprint{content: vfContent(s)}
	fp.count, _ = s.Count()
	for i, ss := range s.segment {
		fp.ids = append(fp.ids, ss.id)
		fp.offsets = append(fp.offsets, s.offsets[i])
		var d []uint32
		if ss.deleted != nil {
			d = ss.deleted.ToArray()
		}
		fp.deleted = append(fp.deleted, d)
	}
	return fp
}

func vfSameFingerprint(s *Snapshot, fp *vfFingerprint, when string) {
	now := vfFingerprintOf(s)
	vfAssert(now.count == fp.count, when+": the held reader's Count is unchanged")
	vfAssert(len(now.content) == len(fp.content), when+": the held reader enumerates the same number of documents")
	if len(now.content) == len(fp.content) {
		for i := range fp.content {
			vfAssert(now.content[i] == fp.content[i], when+": the held reader returns the same documents and stored fields")
		}
	}
	vfAssert(len(now.ids) == len(fp.ids), when+": same segments")
	for i := range fp.ids {
		vfAssert(now.ids[i] == fp.ids[i] && now.offsets[i] == fp.offsets[i], when+": same segment ids and offsets")
		vfAssert(len(now.deleted[i]) == len(fp.deleted[i]), when+": a deleted bitmap shared with the held reader was not mutated")
		if len(now.deleted[i]) == len(fp.deleted[i]) {
			for j := range fp.deleted[i] {
				vfAssert(now.deleted[i][j] == fp.deleted[i][j], when+": deleted set of the held reader unchanged")
			}
		}
	}
}

// C04: a reader held across a batch, a merge of everything and a persist swap
// (each the real introducer step) keeps answering exactly as when it was
// obtained; nothing it references is released while it is open; after it is
// closed every file segment no longer in the root is released exactly once.
//
// vf:harness property=C04 cases=nseg:1..2;dp:1;nu:0..1;nd:0..1|nseg:1;dp:2;nu:0..1;nd:0..1 goinline=1 chanslack=8 maxpaths=600000
// vf:bounds arbitrary valid root of nseg segments of dp docs (file-backed or in memory, arbitrary deletions); a batch of nu documents and nd deletes with arbitrary ids; then a merge of all segments of the then-current root; then a persist swap of the merged segment
// vf:assume steps are atomic with respect to the reader (the introducer holds rootLock for the swap); schedules inside a step are outside (see C15)
func VF_C04_ReaderFrozenAcrossSteps(nseg int, dp int, nu int, nd int) {
	st := vfArbitraryRoot(nseg, dp, 5)
	w := st.w
	held, _ := w.Reader()
	fp := vfFingerprintOf(held)
	heldClosers := st.closers
	heldWraps := st.wraps

	// step 1: a batch
	sp := vfMakeBatch(nu, nd, true)
	vfIntroduce(st, sp, 6)
	vfSameFingerprint(held, fp, "after a batch")

	// step 2: merge every segment of the current root
	cur := w.currentSnapshot()
	if len(cur.segment) > 0 {
		var msegs []segment.Segment
		var mdrops []*roaring.Bitmap
		old := map[uint64]*segmentSnapshot{}
		for _, ss := range cur.segment {
			old[ss.id] = ss
			msegs = append(msegs, ss.segment)
			mdrops = append(mdrops, ss.deleted)
		}
		merger := vfMerge(msegs, mdrops, 1).(*vfMerger)
		sm := &segmentMerge{id: 50, old: old, oldNewDocNums: map[uint64][]uint64{}, notifyCh: make(chan *mergeTaskIntroStatus, 1),
			new: &segmentWrapper{Segment: merger.seg, refCounter: noOpRefCounter{}}}
		for i, ss := range cur.segment {
			sm.oldNewDocNums[ss.id] = merger.docNums[i]
		}
		w.introduceMerge(sm, 7)
		status := <-sm.notifyCh
		_ = status.snapshot.Close() // the merger's reference
		vfSameFingerprint(held, fp, "after a merge")

		// step 3: persist swap of the merged segment
		pc := &vfSegCloser{}
		pi := &persistIntroduction{persisted: map[uint64]*segmentWrapper{50: {Segment: merger.seg, refCounter: &closeOnLastRefCounter{closer: pc, refs: 1}, persisted: true}}, applied: make(notificationChan)}
		w.introducePersist(pi, 8)
		vfSameFingerprint(held, fp, "after a persist swap")
	}
	_ = cur.Close()

	for i, c := range heldClosers {
		if heldWraps[i].persisted {
			vfAssert(c.closed == 0, "a file segment referenced by an open reader is not released")
		}
	}
	_ = held.Close()
	inRoot := map[*segmentWrapper]bool{}
	for _, ss := range w.root.segment {
		inRoot[ss.segment] = true
	}
	for i, c := range heldClosers {
		if !heldWraps[i].persisted {
			continue
		}
		if inRoot[heldWraps[i]] {
			vfAssert(c.closed == 0, "a segment still in the root stays open")
		} else {
			vfAssert(c.closed == 1, "a file segment is released exactly once after its last user closed")
		}
	}
}

// C04 iterator recycling: a postings iterator of a reader whose root has been
// superseded is not put back on the recycle list (it would pin stale
// per-segment state); one closed while its snapshot is still the root is.
//
// vf:harness property=C04 cases=move:0..1 goinline=1 chanslack=8
// vf:bounds root of one segment with two docs; the root is or is not superseded by a batch between opening and closing the iterator
func VF_C04_NoRecycleAfterRootMoved(move int) {
	st := vfArbitraryRoot(1, 2, 5)
	w := st.w
	r, _ := w.Reader()
	it, err := r.PostingsIterator([]byte{vfByte("term")}, "_id", false, false, false)
	vfAssert(err == nil, "iterator opens")
	if move == 1 {
		sp := vfMakeBatch(1, 0, true)
		vfIntroduce(st, sp, 6)
	}
	_ = it.Close()
	n := 0
	if r.fieldTFRs != nil {
		n = len(r.fieldTFRs["_id"])
	}
	if move == 1 {
		vfAssert(n == 0, "an iterator of a superseded snapshot is not recycled")
	} else {
		vfAssert(n == 1, "an iterator of the current root is recycled")
	}
	_ = r.Close()
}
