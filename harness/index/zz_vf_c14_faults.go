//go:build verif

package index

// C14 (and the ordering leg of C02): persisting a snapshot through the real
// persistSnapshotDirect / prepareIntroducePersist / loadSegment /
// introducePersist / Snapshot.WriteTo against a model directory where every
// Persist and Load may fail. The introducer goroutine is modelled by a channel
// handler that runs the real introducePersist at the moment of the send.
//
// Success: every segment item was persisted before the snapshot item, the
// snapshot item decodes to exactly the root's segments, the deletion policy was
// told exactly once and only after the snapshot item was complete, the in-memory
// segments were swapped for loaded copies, nothing loaded is leaked.
// Failure: a non-nil error, nothing committed, no snapshot item for that epoch,
// every segment that was loaded but not swapped in is closed, readers keep
// answering as before; a fault-free retry from the resulting state succeeds.
//
// vf:harness property=C14 cases=nseg:1..2;dp:1 cases.thorough=nseg:1..3;dp:1..2 goinline=1 chanslack=8 maxpaths=400000 replay=model-only
// vf:replace (*github.com/RoaringBitmap/roaring.Bitmap).ToBytes vfRoaringToBytes
// vf:replace (*github.com/RoaringBitmap/roaring.Bitmap).ReadFrom vfRoaringReadFrom
// vf:bounds arbitrary valid root of nseg segments (each in memory or already file-backed, arbitrary deletions); every directory Persist and Load free to fail (symbolic choice per call); one retry with faults cleared
// vf:assume model directory and model segment plugin; the introducer goroutine runs introducePersist to completion when the persister hands it the loaded segments (a legal schedule; others need goroutine scheduling and are outside); persisterLoop's own error handling (waiting Batch calls get the error, AsyncError fires) is outside tier 1
func VF_C14_PersistDirectFaults(nseg int, dp int) {
	st := vfArbitraryRoot(nseg, dp, 5)
	w := st.w
	dir := vfNewDir()
	dir.faults = true
	w.directory = dir
	policy := NewKeepNLatestDeletionPolicy(2)
	w.deletionPolicy = policy
	w.closeCh = make(chan struct{})
	persists := make(chan *persistIntroduction)
	epochNext := uint64(6)
	vfOnSend(persists, func(p *persistIntroduction) {
		w.introducePersist(p, epochNext)
		epochNext++
	})
	// file-backed segments of the pre-state are already in the directory
	for i, ss := range w.root.segment {
		if ss.segment.Persisted() {
			dir.faults = false
			_ = dir.Persist(ItemKindSegment, ss.id, st.segs[i], nil)
			dir.faults = true
		}
	}
	dir.log = nil
	before := vfContent(w.root)

	snap := w.currentSnapshot()
	err := w.persistSnapshotDirect(persists, snap)
	_ = snap.Close()

	check := func(err error, when string) {
		snapPersisted := -1
		for i, op := range dir.log {
			if op.op == "persist" && op.kind == ItemKindSnapshot && op.ok {
				snapPersisted = i
			}
		}
		if err == nil {
			vfAssert(snapPersisted >= 0, when+": success means the snapshot item was persisted")
			for i, op := range dir.log {
				if op.op == "persist" && op.kind == ItemKindSegment {
					vfAssert(i < snapPersisted, when+": every segment item is persisted before the snapshot item")
					vfAssert(op.ok, when+": success means no segment persist failed")
				}
			}
			vfAssert(len(policy.liveEpochs) >= 1 && policy.liveEpochs[len(policy.liveEpochs)-1] == 5, when+": the deletion policy was told about the persisted snapshot")
			// the item decodes to the root's segments, all of them present as items
			it := dir.items[vfKey(ItemKindSnapshot, 5)]
			vfAssert(it != nil, when+": snapshot item exists")
			if it != nil {
				vfAssert(len(it.data) >= 6, when+": snapshot item is complete (header and CRC trailer)")
			}
			for _, ss := range snap.segment {
				vfAssert(dir.has(ItemKindSegment, ss.id), when+": every segment the snapshot names is in the directory")
			}
			for _, ss := range w.root.segment {
				vfAssert(ss.segment.Persisted(), when+": every root segment is now file-backed")
			}
		} else {
			vfAssert(snapPersisted < 0, when+": failure leaves no snapshot item for the epoch")
			vfAssert(!dir.has(ItemKindSnapshot, 5), when+": failure leaves no snapshot item for the epoch (directory)")
			vfAssert(len(policy.liveEpochs) == 0, when+": nothing is committed to the deletion policy on failure")
		}
		// handles: every loaded item is either part of the root or closed
		open := 0
		for _, c := range dir.closers {
			if c.closed == 0 {
				open++
			}
		}
		inRoot := 0
		for _, ss := range w.root.segment {
			if rc, ok := ss.segment.refCounter.(*closeOnLastRefCounter); ok {
				if _, mine := rc.closer.(*vfCloser); mine {
					inRoot++
				}
			}
		}
		vfAssert(open == inRoot, when+": every segment loaded from the directory is in the root or was closed again (no leaked handle)")
		after := vfContent(w.root)
		vfAssert(len(after) == len(before), when+": readers keep answering with the same documents")
		for i := range after {
			if i < len(before) {
				vfAssert(after[i] == before[i], when+": same documents in the same order")
			}
		}
		vfCheckRI(w.root)
	}
	check(err, "first attempt")

	if err != nil {
		// the fault clears: the next attempt covers everything applied so far
		dir.faults = false
		dir.log = nil
		snap2 := w.currentSnapshot()
		vfAssume(snap2.epoch == 5 || snap2.epoch >= 6)
		// persist under the original epoch number if the root did not move, else under the new one
		err2 := w.persistSnapshotDirect(persists, snap2)
		vfAssert(err2 == nil, "retry without faults succeeds")
		vfAssert(dir.has(ItemKindSnapshot, snap2.epoch), "retry persists the snapshot")
		for _, ss := range snap2.segment {
			vfAssert(dir.has(ItemKindSegment, ss.id), "retry: every named segment is in the directory")
		}
		vfAssert(len(policy.liveEpochs) == 1 && policy.liveEpochs[0] == snap2.epoch, "retry commits the snapshot")
		_ = snap2.Close()
	}
}

// C14 loadSegment: a failing Load or a plugin that rejects the data surfaces
// as an error and the item's handle is closed again.
//
// vf:harness property=C14 cases=bad:0..1 replay=model-only
// vf:bounds one segment item that is a valid model segment or arbitrary 8 bytes; Load free to fail
func VF_C14_LoadSegmentFaults(bad int) {
	dir := vfNewDir()
	dir.faults = true
	w := &Writer{config: Config{supportedSegmentPlugins: vfPlugins()}, segPlugin: vfPlugin(), directory: dir}
	seg := vfNewSegment([]vfDoc{{id: []byte{1}, payload: 2}})
	if bad == 1 {
		dir.put(ItemKindSegment, 3, vfBytes("junk", 8))
	} else {
		dir.faults = false
		_ = dir.Persist(ItemKindSegment, 3, seg, nil)
		dir.faults = true
	}
	sw, err := w.loadSegment(3, w.segPlugin)
	if err != nil {
		vfAssert(sw == nil, "failure returns no segment")
		for _, c := range dir.closers {
			vfAssert(c.closed == 1, "a handle opened for a segment that failed to load is closed again")
		}
	} else {
		vfAssert(sw != nil && sw.Persisted(), "a loaded segment is file-backed")
		vfAssert(len(dir.closers) == 1 && dir.closers[0].closed == 0, "the handle stays open while the segment is in use")
		_ = sw.Close()
		vfAssert(dir.closers[0].closed == 1, "closing the segment releases the handle exactly once")
	}
}
