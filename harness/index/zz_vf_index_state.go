//go:build verif

package index

import (
	"github.com/RoaringBitmap/roaring"
	segment "github.com/blugelabs/bluge_segment_api"
)

// ---- arbitrary valid index states (DESIGN.md appendix C.2/C.3) -----------------------

// abstract document of the model index
type vfADoc struct {
	id      byte
	payload byte
	live    bool
}

type vfSegCloser struct {
	closed int
}

func (c *vfSegCloser) Close() error {
	c.closed++
	return nil
}

type vfIdx struct {
	w       *Writer
	segs    []*vfSegment   // model segments of the root, in root order
	closers []*vfSegCloser // their closers (nil for in-memory segments)
	wraps   []*segmentWrapper
	docs    [][]vfADoc // abstract content per root segment
}

type vfTerm struct {
	field string
	term  []byte
}

func (t vfTerm) Field() string { return t.field }
func (t vfTerm) Term() []byte  { return t.term }

func vfIDTerm(id byte) segment.Term { return vfTerm{"_id", []byte{id}} }

// vfArbitraryRoot builds a writer whose root is an arbitrary snapshot
// satisfying the representation invariant RI: nseg segments of dp docs each
// with arbitrary one-byte ids and payloads, arbitrary deleted sets that leave
// at least one live doc per segment, offsets = prefix sums of full counts,
// distinct segment ids, one reference on the root and on every segment.
func vfArbitraryRoot(nseg, dp int, epoch uint64) *vfIdx {
	st := &vfIdx{}
	w := &Writer{config: Config{supportedSegmentPlugins: vfPlugins()}, segPlugin: vfPlugin()}
	w.nextSegmentID = uint64(100)
	root := &Snapshot{parent: w, epoch: epoch, refs: 1, creator: "vf"}
	var running uint64
	for i := 0; i < nseg; i++ {
		var docs []vfDoc
		var adocs []vfADoc
		var deleted *roaring.Bitmap
		live := 0
		for j := 0; j < dp; j++ {
			d := vfDoc{id: []byte{vfByte("id")}, payload: vfByte("payload")}
			ad := vfADoc{id: d.id[0], payload: d.payload, live: true}
			if vfBool("deleted") {
				if deleted == nil {
					deleted = roaring.NewBitmap()
				}
				deleted.Add(uint32(j))
				ad.live = false
			} else {
				live++
			}
			docs = append(docs, d)
			adocs = append(adocs, ad)
		}
		vfAssume(live > 0)
		if deleted == nil && vfBool("empty-deleted-bitmap") {
			deleted = roaring.NewBitmap() // introduceMerge leaves an empty, non-nil bitmap
		}
		seg := vfNewSegment(docs)
		closer := &vfSegCloser{}
		persisted := vfBool("persisted")
		var rc refCounter = noOpRefCounter{}
		if persisted {
			rc = &closeOnLastRefCounter{closer: closer, refs: 1}
		}
		wrap := &segmentWrapper{Segment: seg, refCounter: rc, persisted: persisted}
		root.segment = append(root.segment, &segmentSnapshot{id: uint64(10 + i), segment: wrap, deleted: deleted, creator: "vf"})
		root.offsets = append(root.offsets, running)
		running += uint64(dp)
		st.segs = append(st.segs, seg)
		st.closers = append(st.closers, closer)
		st.wraps = append(st.wraps, wrap)
		st.docs = append(st.docs, adocs)
	}
	w.root = root
	st.w = w
	return st
}

// vfCheckRI asserts the representation invariant on a snapshot.
func vfCheckRI(s *Snapshot) {
	vfAssert(len(s.offsets) == len(s.segment), "RI: one offset per segment")
	var running uint64
	for i, ss := range s.segment {
		vfAssert(s.offsets[i] == running, "RI: offsets are prefix sums of full segment counts")
		running += ss.segment.Count()
		if ss.deleted != nil && !ss.deleted.IsEmpty() {
			vfAssert(uint64(ss.deleted.Maximum()) < ss.segment.Count(), "RI: deleted numbers are within the segment")
		}
		vfAssert(ss.LiveSize() > 0, "RI: every root segment has a live document")
		for j := 0; j < i; j++ {
			vfAssert(s.segment[j].id != ss.id, "RI: segment ids are distinct")
		}
	}
	vfAssert(s.refs >= 1, "RI: the snapshot is referenced")
}

type vfSeen struct {
	id      byte
	payload byte
}

// vfContent reads the logical content of a snapshot through its real reader
// API: match-all enumeration, then stored fields of every hit.
func vfContent(s *Snapshot) []vfSeen {
	var out []vfSeen
	it, err := s.postingsIteratorAll("")
	vfAssert(err == nil, "match-all iterator opens")
	for {
		p, err := it.Next()
		vfAssert(err == nil, "match-all iteration does not fail")
		if p == nil {
			break
		}
		var seen vfSeen
		nfields := 0
		err = s.VisitStoredFields(p.Number(), func(field string, value []byte) bool {
			if field == "_id" {
				seen.id = value[0]
			} else if field == "p" {
				seen.payload = value[0]
			}
			nfields++
			return true
		})
		vfAssert(err == nil && nfields == 2, "stored fields of a live hit are readable")
		out = append(out, seen)
	}
	return out
}

// vfLookup returns the payloads of the live docs with the given id, through the
// real postings iterator over the _id field.
func vfLookupID(s *Snapshot, id byte) []byte {
	var out []byte
	it, err := s.PostingsIterator([]byte{id}, "_id", false, false, false)
	vfAssert(err == nil, "postings iterator opens")
	for {
		p, err := it.Next()
		vfAssert(err == nil, "postings iteration does not fail")
		if p == nil {
			break
		}
		_ = s.VisitStoredFields(p.Number(), func(field string, value []byte) bool {
			if field == "p" {
				out = append(out, value[0])
			}
			return true
		})
	}
	_ = it.Close()
	return out
}

// vfExpect asserts that the snapshot's content equals the abstract list.
func vfExpect(s *Snapshot, want []vfADoc, what string) {
	got := vfContent(s)
	var live []vfADoc
	for _, d := range want {
		if d.live {
			live = append(live, d)
		}
	}
	cnt, _ := s.Count()
	vfAssert(cnt == uint64(len(live)), what+": Count equals the number of live documents of the abstract index")
	vfAssert(len(got) == len(live), what+": match-all enumerates exactly the live documents")
	if len(got) == len(live) {
		for i := range live {
			vfAssert(got[i].id == live[i].id && got[i].payload == live[i].payload, what+": document ids and stored payloads agree with the abstract index, in order")
		}
	}
}

func vfFlatten(docs [][]vfADoc) []vfADoc {
	var out []vfADoc
	for _, seg := range docs {
		out = append(out, seg...)
	}
	return out
}

func vfBitmapOf(nums []uint32) *roaring.Bitmap {
	b := roaring.NewBitmap()
	for _, n := range nums {
		b.Add(n)
	}
	return b
}
