//go:build verif

package bluge

import (
	"bytes"
	"math"

	"github.com/blugelabs/bluge/numeric"
)

// C10 index side: a numeric field emits exactly the prefix-coded terms of its
// value at shifts 0,4,..,60 — the terms the range decomposition looks up.
//
// vf:harness property=C10
// vf:bounds x: all non-NaN float64 bit patterns
func VF_C10_IndexTokens() {
	x := vfFloat64("x")
	vfAssume(!math.IsNaN(x))
	f := NewNumericField("n", x)
	toks := f.analyzer.Analyze(f.value)
	vfAssert(len(toks) == 16, "16 terms: shifts 0,4,..,60")
	v := numeric.Float64ToInt64(x)
	for k, tok := range toks {
		want := numeric.MustNewPrefixCodedInt64(v, uint(4*k))
		vfAssert(bytes.Equal(tok.Term, want), "term k is the prefix coding at shift 4k")
	}
	d, err := DecodeNumericFloat64(f.value)
	vfAssert(err == nil && math.Float64bits(d) == math.Float64bits(x), "stored value decodes to the same float")
}

// Date fields: same for the nanosecond timestamp.
//
// vf:harness property=C10
// vf:bounds ns: all int64 (the analyzer is run directly on the shift-0 term of ns; time.Time conversion outside)
func VF_C10_IndexTokensInt() {
	ns := vfInt64("ns")
	a := &numericAnalyzer{shiftBy: defaultDateTimePrecisionStep}
	toks := a.Analyze(numeric.MustNewPrefixCodedInt64(ns, 0))
	vfAssert(len(toks) == 16, "16 terms: shifts 0,4,..,60")
	for k, tok := range toks {
		want := numeric.MustNewPrefixCodedInt64(ns, uint(4*k))
		vfAssert(bytes.Equal(tok.Term, want), "term k is the prefix coding at shift 4k")
	}
}
