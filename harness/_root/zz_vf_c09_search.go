//go:build verif

package bluge

import (
	"github.com/blugelabs/bluge/search"
)

// C09 search-before: building the collector for a Before() request must not
// change the request's own sort order. The order is observed only through its
// public behaviour (Compare on two hits); a before-chain that reuses its
// request (or MultiSearch, which asks for one collector per reader) would
// otherwise page in alternating directions.
//
// vf:harness property=C09 cases=calls:1..2
// vf:bounds one text sort key, ascending or descending; two hits with arbitrary one-byte keys; Collector() called once or twice
func VF_C09_SortOrderNotMutated(calls int) {
	var order search.SortOrder
	if vfBool("desc") {
		order = search.ParseSortOrderStrings([]string{"-name"})
	} else {
		order = search.ParseSortOrderStrings([]string{"name"})
	}
	a := &search.DocumentMatch{HitNumber: 1, SortValue: [][]byte{{vfByte("ka")}}}
	b := &search.DocumentMatch{HitNumber: 2, SortValue: [][]byte{{vfByte("kb")}}}
	before := order.Compare(a, b)
	req := NewTopNSearch(3, NewMatchAllQuery()).SortByCustom(order).Before([][]byte{{vfByte("pivot")}})
	for i := 0; i < calls; i++ {
		_ = req.Collector()
	}
	vfAssert(order.Compare(a, b) == before, "the request's sort order compares as before after Collector() was built")
	vfAssert(req.SortOrder().Compare(a, b) == before, "SortOrder() still reports the requested order")
}
