//go:build verif

package bluge

import (
	"github.com/blugelabs/bluge/numeric/geo"
	"github.com/blugelabs/bluge/search"
)

type vfGeoBox struct{ minLon, minLat, maxLon, maxLat float64 }

var vfGeoBoxes []vfGeoBox

type vfNoHits struct{}

func (vfNoHits) Next(ctx *search.Context) (*search.DocumentMatch, error) { return nil, nil }
func (vfNoHits) Advance(ctx *search.Context, number uint64) (*search.DocumentMatch, error) {
	return nil, nil
}
func (vfNoHits) Close() error               { return nil }
func (vfNoHits) Count() uint64              { return 0 }
func (vfNoHits) Min() int                   { return 0 }
func (vfNoHits) Size() int                  { return 0 }
func (vfNoHits) DocumentMatchPoolSize() int { return 1 }

func vfRecordGeoBox(indexReader search.Reader, minLon, minLat, maxLon, maxLat float64, field string, boost float64,
	scorer search.Scorer, compScorer search.CompositeScorer, options search.SearcherOptions,
	checkBoundaries bool, precisionStep uint) (search.Searcher, error) {
	vfGeoBoxes = append(vfGeoBoxes, vfGeoBox{minLon, minLat, maxLon, maxLat})
	return vfNoHits{}, nil
}

// C07, geo bounding box query: GeoBoundingBoxQuery.Searcher searches exactly the
// requested rectangle, split at the date line when it crosses it.
//
// vf:harness property=C07
// vf:replace github.com/blugelabs/bluge/search/searcher.NewGeoBoundingBoxSearcher vfRecordGeoBox
// vf:bounds all non-NaN float64 corners and points; both branches
// vf:assume as VF_C07_GeoBoxSplit (searcher package)
func VF_C07_GeoBoundingBoxQuery() {
	tlLon, tlLat, brLon, brLat := vfFloat64("tlLon"), vfFloat64("tlLat"), vfFloat64("brLon"), vfFloat64("brLat")
	lon, lat := vfFloat64("lon"), vfFloat64("lat")
	vfAssume(tlLon == tlLon && tlLat == tlLat && brLon == brLon && brLat == brLat && lon == lon && lat == lat)
	vfGeoBoxes = nil
	q := NewGeoBoundingBoxQuery(tlLon, tlLat, brLon, brLat).SetField("f")
	s, err := q.Searcher(nil, search.SearcherOptions{})
	vfAssert(err == nil && s != nil, "a searcher is built")
	got := false
	for _, b := range vfGeoBoxes {
		if geo.BoundingBoxContains(lon, lat, b.minLon, b.minLat, b.maxLon, b.maxLat) {
			got = true
		}
	}
	var want bool
	if brLon < tlLon {
		want = geo.BoundingBoxContains(lon, lat, -180, brLat, brLon, tlLat) || geo.BoundingBoxContains(lon, lat, tlLon, brLat, 180, tlLat)
	} else {
		want = geo.BoundingBoxContains(lon, lat, tlLon, brLat, brLon, tlLat)
	}
	vfAssert(got == want, "the searched rectangles contain exactly the points of the requested rectangle")
}
