//go:build verif

package bluge

import (
	"bytes"

	"github.com/blugelabs/bluge/analysis"
	"github.com/blugelabs/bluge/analysis/token"
	"github.com/blugelabs/bluge/analysis/tokenizer"
	"github.com/blugelabs/bluge/search"
	"github.com/blugelabs/bluge/search/similarity"
	segment "github.com/blugelabs/bluge_segment_api"
)

// A one-document index built from what the real field analysis produced: the
// postings of (field, term) hold document 0 iff the term is among the field's
// analysed terms.
type vfOneDocReader struct {
	field string
	terms [][]byte
	asked int
}

type vfOnePosting struct{ num uint64 }

func (p *vfOnePosting) Number() uint64               { return p.num }
func (p *vfOnePosting) SetNumber(n uint64)           { p.num = n }
func (p *vfOnePosting) Frequency() int               { return 1 }
func (p *vfOnePosting) Norm() float64                { return 1 }
func (p *vfOnePosting) Locations() []segment.Location { return nil }
func (p *vfOnePosting) Size() int                    { return 8 }

type vfOneIter struct {
	has  bool
	done bool
}

func (it *vfOneIter) Next() (segment.Posting, error) {
	if !it.has || it.done {
		return nil, nil
	}
	it.done = true
	return &vfOnePosting{0}, nil
}
func (it *vfOneIter) Advance(n uint64) (segment.Posting, error) {
	if n > 0 {
		it.done = true
	}
	return it.Next()
}
func (it *vfOneIter) Size() int { return 8 }
func (it *vfOneIter) Empty() bool { return !it.has }
func (it *vfOneIter) Count() uint64 {
	if it.has {
		return 1
	}
	return 0
}
func (it *vfOneIter) Close() error { return nil }

type vfOneStats struct{}

func (vfOneStats) TotalDocumentCount() uint64          { return 1 }
func (vfOneStats) DocumentCount() uint64               { return 1 }
func (vfOneStats) SumTotalTermFrequency() uint64       { return 1 }
func (vfOneStats) Merge(segment.CollectionStats)       {}

func (r *vfOneDocReader) PostingsIterator(term []byte, field string, includeFreq, includeNorm, includeTermVectors bool) (segment.PostingsIterator, error) {
	r.asked++
	it := &vfOneIter{}
	if field == r.field {
		for _, t := range r.terms {
			if bytes.Equal(t, term) {
				it.has = true
			}
		}
	}
	return it, nil
}
func (r *vfOneDocReader) CollectionStats(field string) (segment.CollectionStats, error) {
	return vfOneStats{}, nil
}
func (r *vfOneDocReader) DictionaryLookup(field string) (segment.DictionaryLookup, error) {
	return nil, nil
}
func (r *vfOneDocReader) DictionaryIterator(field string, automaton segment.Automaton, start, end []byte) (segment.DictionaryIterator, error) {
	return nil, nil
}
func (r *vfOneDocReader) DocumentValueReader(fields []string) (segment.DocumentValueReader, error) {
	return nil, nil
}
func (r *vfOneDocReader) VisitStoredFields(number uint64, visitor segment.StoredFieldVisitor) error {
	return nil
}
func (r *vfOneDocReader) Close() error { return nil }

func vfAgreeAnalyzer(kind int) *analysis.Analyzer {
	switch kind {
	case 0:
		return &analysis.Analyzer{Tokenizer: tokenizer.NewWhitespaceTokenizer()}
	case 1:
		// the apostrophe filter can reduce a token to the empty term
		return &analysis.Analyzer{Tokenizer: tokenizer.NewWhitespaceTokenizer(), TokenFilters: []analysis.TokenFilter{token.NewApostropheFilter()}}
	case 2:
		return &analysis.Analyzer{Tokenizer: tokenizer.NewWhitespaceTokenizer(), TokenFilters: []analysis.TokenFilter{token.NewTruncateTokenFilter(1)}}
	}
	return &analysis.Analyzer{Tokenizer: tokenizer.NewSingleTokenTokenizer()}
}

// C18 agreement clause: a match query (all terms required) whose text is a
// document's own field text, with the same analyzer, finds that document
// whenever the analysis yields a token. Index side: the real TermField.Analyze
// and EachTerm; query side: the real MatchQuery.Searcher (term queries under a
// boolean must) and the real term/conjunction searchers over a one-document
// reader built from the index side's terms.
//
// vf:harness property=C18 cases=L:0..2;kind:0..3 cases.thorough=L:0..4;kind:0..3 maxpaths=400000 unwind=400 diff=off
// vf:bounds every text of L bytes (quick <= 2, thorough <= 4; invalid UTF-8 included); analyzers: whitespace, whitespace+apostrophe (can yield empty terms), whitespace+truncate(1) (can make tokens coincide), single token; stored and unstored field, AND operator
// vf:assume the one-document reader stands for the index (postings of a term = {doc 0} iff the field's analysis produced the term); BM25 statistics are concrete (1 document)
func VF_C18_MatchOwnText(L int, kind int) {
	text := vfString("text", L)
	a := vfAgreeAnalyzer(kind)
	f := NewTextField("body", text).WithAnalyzer(a)
	if vfBool("stored") {
		f = f.StoreValue()
	}
	f.Analyze(0)
	rd := &vfOneDocReader{field: "body"}
	f.EachTerm(func(ft segment.FieldTerm) {
		rd.terms = append(rd.terms, ft.Term())
	})
	ntok := len(a.Analyze([]byte(text)))
	q := NewMatchQuery(text).SetField("body").SetAnalyzer(a).SetOperator(MatchQueryOperatorAnd)
	opts := search.SearcherOptions{
		SimilarityForField: func(string) search.Similarity { return similarity.NewBM25Similarity() },
		Score:              "none",
	}
	s, err := q.Searcher(rd, opts)
	vfAssert(err == nil && s != nil, "the match query builds a searcher")
	ctx := search.NewSearchContext(s.DocumentMatchPoolSize()+1, 0)
	dm, err := s.Next(ctx)
	vfAssert(err == nil, "the searcher runs")
	if ntok > 0 {
		vfAssert(dm != nil && dm.Number == 0, "a match query for the document's own text finds the document")
	} else {
		vfAssert(dm == nil, "a text without tokens matches nothing")
	}
}
