//go:build verif

package numeric

import (
	"bytes"
	"math"
)

// C10: the float <-> sortable int64 mapping round-trips every bit pattern and
// embeds the float order (with -0 immediately below +0).
//
// vf:harness property=C10
// vf:bounds all 2^64 float64 bit patterns (a, b unconstrained; NaN excluded only for the order clause)
func VF_C10_FloatCodec() {
	x := vfUint64("x")
	f := math.Float64frombits(x)
	vfAssert(math.Float64bits(Int64ToFloat64(Float64ToInt64(f))) == x, "float->int64->float round trip is bit exact")
	i := vfInt64("i")
	vfAssert(Float64ToInt64(Int64ToFloat64(i)) == i, "int64->float->int64 round trip")

	a, b := vfFloat64("a"), vfFloat64("b")
	vfAssume(!math.IsNaN(a))
	vfAssume(!math.IsNaN(b))
	ia, ib := Float64ToInt64(a), Float64ToInt64(b)
	negZeroPosZero := math.Float64bits(a) == 0x8000000000000000 && math.Float64bits(b) == 0
	vfAssert((ia < ib) == (a < b || negZeroPosZero), "order embedding with -0 < +0")
	vfAssert((ia == ib) == (math.Float64bits(a) == math.Float64bits(b)), "injective")
}

// C10: at every precision shift the prefix coding compares like the truncated
// values, has the documented length and 7-bit payload bytes, and decodes back
// to the value with the low shift bits cleared.
//
// vf:harness property=C10 cases=shift:0..63
// vf:bounds shift concrete 0..63 (64 cases); a, b: all int64
func VF_C10_PrefixOrder(shift uint) {
	a, b := vfInt64("a"), vfInt64("b")
	pa := MustNewPrefixCodedInt64(a, shift)
	pb := MustNewPrefixCodedInt64(b, shift)
	c := bytes.Compare(pa, pb)
	// truncated values: arithmetic shift keeps the signed order
	ta, tb := a>>shift, b>>shift
	vfAssert((c < 0) == (ta < tb), "bytes.Compare < 0 iff truncated a < truncated b")
	vfAssert((c == 0) == (ta == tb), "equal encodings iff same truncated value")
	vfAssert(len(pa) == int((63-shift)/7+2), "encoded length")
	vfAssert(pa[0] == ShiftStartInt64+byte(shift), "first byte carries the shift")
	for i := 1; i < len(pa); i++ {
		vfAssert(pa[i] < 0x80, "payload bytes are 7-bit")
	}
	ok, sh := ValidPrefixCodedTermBytes(pa)
	vfAssert(ok && sh == int(shift), "encoder output is a valid prefix coded term")
	if shift < 63 {
		s2, err := pa.Shift()
		vfAssert(err == nil && s2 == shift, "Shift() round trip")
		v, err := pa.Int64()
		vfAssert(err == nil && v == (a>>shift)<<shift, "Int64() returns the value with the low shift bits cleared")
	}
}

// C10: Morton interleave (geo hashes) round-trips both 32-bit halves.
//
// vf:harness property=C10
// vf:bounds a, b: all values below 2^32
func VF_C10_Morton() {
	a, b := vfUint64("a"), vfUint64("b")
	vfAssume(a < 1<<32)
	vfAssume(b < 1<<32)
	m := Interleave(a, b)
	vfAssert(Deinterleave(m) == a, "Deinterleave(Interleave(a,b)) == a")
	vfAssert(Deinterleave(m>>1) == b, "Deinterleave(Interleave(a,b)>>1) == b")
}
